use crate::ops::{parse_f64, Outcome};
use crate::spec::*;
use crate::Args;
use std::panic::{catch_unwind, AssertUnwindSafe};
use xml_dom::AsNode;
use xml_xpath::eval::model::{Context, Value};

fn guard<F: FnOnce() -> String>(f: F) -> String {
    match catch_unwind(AssertUnwindSafe(f)) {
        Ok(s) => s,
        Err(e) => {
            let msg = if let Some(s) = e.downcast_ref::<&str>() {
                s.to_string()
            } else if let Some(s) = e.downcast_ref::<String>() {
                s.clone()
            } else {
                "?".to_string()
            };
            format!("PANIC({})", msg)
        }
    }
}

// ------------------------------------------------------------------------------------------------
// DocumentOrder scripts

#[derive(Clone)]
struct OrderModel {
    ids: Vec<Option<usize>>,
    version: usize,
}

impl OrderModel {
    fn pos(&self, id: usize) -> Option<usize> {
        self.ids.iter().position(|v| *v == Some(id))
    }
}

pub fn order_script(script: &str) -> Outcome {
    let steps: Vec<&str> = script.split(';').filter(|s| !s.is_empty()).collect();
    let observed = guard(|| {
        let mut p = xml_info::verif_hooks::OrderProbe::default();
        let mut out = vec![];
        for s in &steps {
            let f: Vec<&str> = s.split(':').collect();
            let n = |i: usize| f[i].parse::<usize>().unwrap();
            match f[0] {
                "push" => out.push(format!("{:?}", p.push(n(1)))),
                "remove" => out.push(format!("{:?}", p.remove(n(1)))),
                "after" => out.push(format!("{:?}", p.insert_after(n(1), n(2)))),
                "before" => out.push(format!("{:?}", p.insert_before(n(1), n(2)))),
                "get" => out.push(format!("{}", p.get(n(1)))),
                "drop" => {
                    p.drop_info(n(1));
                    out.push("()".into())
                }
                _ => unreachable!(),
            }
        }
        format!("rets=[{}] ids={:?} version={}", out.join(", "), p.ids(), p.version())
    });
    let mut m = OrderModel { ids: vec![], version: 0 };
    let mut out = vec![];
    for s in &steps {
        let f: Vec<&str> = s.split(':').collect();
        let n = |i: usize| f[i].parse::<usize>().unwrap();
        match f[0] {
            "push" => {
                m.ids.push(Some(n(1)));
                out.push(format!("{:?}", (m.ids.len(), m.version)));
            }
            "remove" => {
                if let Some(i) = m.pos(n(1)) {
                    m.ids.remove(i);
                    m.version += 1;
                    out.push(format!("{:?}", Some(m.version)));
                } else {
                    out.push("None".into());
                }
            }
            "after" | "before" => {
                let (id, new) = (n(1), n(2));
                let mut t = m.clone();
                if let Some(i) = t.pos(new) {
                    t.ids.remove(i);
                    t.version += 1;
                }
                if let Some(i) = t.pos(id) {
                    t.ids.insert(if f[0] == "after" { i + 1 } else { i }, Some(new));
                    t.version += 1;
                    m = t;
                    out.push(format!("{:?}", Some(m.version)));
                } else {
                    // a refused call leaves the order unchanged
                    out.push("None".into());
                }
            }
            "get" => out.push(format!("{}", m.pos(n(1)).map(|v| v + 1).unwrap_or(0))),
            "drop" => {
                for v in m.ids.iter_mut() {
                    if *v == Some(n(1)) {
                        *v = None;
                    }
                }
                out.push("()".into());
            }
            _ => unreachable!(),
        }
    }
    let expected = format!("rets=[{}] ids={:?} version={}", out.join(", "), m.ids, m.version);
    Outcome { observed, expected, note: String::new() }
}

pub fn order_scripts() -> Vec<String> {
    let mut v: Vec<String> = vec![];
    let base = "push:1;push:2;push:3;";
    for tail in [
        "get:1;get:2;get:3;get:4",
        "remove:2;get:3;get:2",
        "remove:9",
        "after:1:4;get:4;get:2",
        "after:3:4;get:4",
        "before:1:4;get:4;get:1",
        "before:3:4;get:4;get:3",
        "after:1:3;get:3;get:2",
        "before:1:3;get:3",
        "after:9:2;get:2",
        "before:9:2;get:2",
        "before:3:1;get:1;get:2;get:3",
        "after:3:1;get:1;get:2;get:3",
        "before:1:3;get:1;get:2;get:3",
        "after:2:2;get:2",
        "before:2:2;get:2",
        "drop:2;get:3;remove:2;after:2:4",
        "drop:1;get:2;after:3:5;get:5",
    ] {
        v.push(format!("{}{}", base, tail));
    }
    v.push("get:1".into());
    v.push("remove:1".into());
    v.push("after:1:2".into());
    v
}

// ------------------------------------------------------------------------------------------------
// XPath caller-side namespace context scripts

pub fn ctx_script(script: &str) -> Outcome {
    use xml_nom::model::{PrefixedName, QName};
    let steps: Vec<&str> = script.split(';').filter(|s| !s.is_empty()).collect();
    fn pfx(s: &str) -> Option<&str> {
        if s == "-" {
            None
        } else {
            Some(s)
        }
    }
    let observed = guard(|| {
        let mut c = Context::default();
        let mut out = vec![];
        for s in &steps {
            let f: Vec<&str> = s.split(':').collect();
            match f[0] {
                "add" => c.add_ns(pfx(f[1]), f[2]),
                "rm" => c.remove_ns(pfx(f[1])),
                "get" => out.push(format!("{:?}", c.get_ns_uri(pfx(f[1])))),
                "exp" => {
                    let q = if f[1] == "-" {
                        QName::Unprefixed(f[2])
                    } else {
                        QName::Prefixed(PrefixedName { prefix: f[1], local_part: f[2] })
                    };
                    out.push(match c.expanded_name(&q) {
                        Ok(v) => format!("{:?}", v),
                        Err(_) => "Err".into(),
                    });
                }
                _ => unreachable!(),
            }
        }
        out.join(" | ")
    });
    let mut b: Vec<(Option<String>, String)> = vec![];
    let mut out = vec![];
    for s in &steps {
        let f: Vec<&str> = s.split(':').collect();
        match f[0] {
            "add" => {
                b.retain(|v| v.0.as_deref() != pfx(f[1]));
                b.push((pfx(f[1]).map(|v| v.to_string()), f[2].to_string()));
            }
            "rm" => b.retain(|v| v.0.as_deref() != pfx(f[1])),
            "get" => out.push(format!("{:?}", b.iter().rev().find(|v| v.0.as_deref() == pfx(f[1])).map(|v| v.1.as_str()))),
            "exp" => {
                let uri = b.iter().rev().find(|v| v.0.as_deref() == pfx(f[1])).map(|v| v.1.clone());
                if f[1] != "-" && uri.is_none() {
                    out.push("Err".into());
                } else {
                    out.push(format!("{:?}", (f[2].to_string(), pfx(f[1]).map(|v| v.to_string()), uri)));
                }
            }
            _ => unreachable!(),
        }
    }
    Outcome { observed, expected: out.join(" | "), note: String::new() }
}

pub fn ctx_scripts() -> Vec<String> {
    vec![
        "get:a;get:-".into(),
        "add:a:u;get:a;get:b;get:-;exp:a:x;exp:b:x;exp:-:x".into(),
        "add:a:u;add:a:v;get:a;exp:a:x".into(),
        "add:a:u;add:b:v;add:a:w;get:a;get:b".into(),
        "add:-:u;get:-;exp:-:x;add:-:v;exp:-:x;rm:-;exp:-:x".into(),
        "add:a:u;rm:a;get:a;exp:a:x".into(),
        "add:a:u;add:b:u;rm:a;get:b;exp:b:x".into(),
    ]
}

// ------------------------------------------------------------------------------------------------
// XPath scalar functions / operators

fn parse_value(s: &str) -> Value {
    if let Some(x) = s.strip_prefix("n:") {
        Value::Number(parse_f64(x))
    } else if let Some(x) = s.strip_prefix("b:") {
        Value::Boolean(x == "true")
    } else if let Some(x) = s.strip_prefix("s:") {
        Value::Text(x.to_string())
    } else {
        Value::Node(vec![])
    }
}

fn show_value(v: &Value) -> String {
    match v {
        Value::Boolean(b) => format!("Boolean({})", b),
        Value::Number(x) => {
            if x.is_nan() {
                "Number(NaN)".into()
            } else {
                format!("Number({:?} bits:{:#018x})", x, x.to_bits())
            }
        }
        Value::Text(s) => format!("Text({:?})", s),
        Value::Node(n) => format!("Node(len={})", n.len()),
    }
}

fn num_of(v: &Value) -> Option<f64> {
    match v {
        Value::Number(x) => Some(*x),
        Value::Boolean(b) => Some(if *b { 1.0 } else { 0.0 }),
        _ => None,
    }
}

fn bool_of(v: &Value) -> Option<bool> {
    match v {
        Value::Number(x) => Some(!(*x == 0.0 || x.is_nan())),
        Value::Boolean(b) => Some(*b),
        Value::Text(s) => Some(!s.is_empty()),
        Value::Node(n) => Some(!n.is_empty()),
    }
}

fn vals(a: &Args) -> Vec<Value> {
    let mut v = vec![];
    for k in ["a0", "a1", "a2"] {
        if let Some(s) = a.get(k) {
            v.push(parse_value(s));
        }
    }
    v
}

pub fn xpath_op(rest: &[&str], a: &Args) -> Option<Outcome> {
    use xml_xpath::eval::func::verif_hooks as fh;
    use xml_xpath::eval::verif_hooks as ch;
    let (_, doc) = xml_dom::XmlDocument::from_raw("<r/>").ok()?;
    let node = doc.as_node();
    let args = vals(a);
    let show_res = |r: xml_xpath::eval::error::Result<Value>| match r {
        Ok(v) => show_value(&v),
        Err(_) => "Err".to_string(),
    };
    match rest {
        ["query", kind] => xpath_query_op(kind, a),
        ["func", "substring_range"] => {
            // the real substring_range against the definition of XPath 1.0 4.2 for one position p (1-based)
            let len = crate::ops::parse_usize(a.get("len").map(|v| v.as_str()).unwrap_or("0"));
            let p = crate::ops::parse_usize(a.get("p").map(|v| v.as_str()).unwrap_or("1"));
            let num = |k: &str| a.get(k).map(|v| parse_f64(v.trim_start_matches("n:")));
            let start = num("a1").unwrap_or(f64::NAN);
            let length = num("a2");
            let observed = guard(|| {
                let r = fh::substring_range(len, start, length);
                format!("range_ok={} inside={}", r.start <= r.end && r.end <= len, r.start < p && p <= r.end)
            });
            let first = xpath_round(start);
            let inside = (p as f64) >= first && length.map(|l| (p as f64) < first + xpath_round(l)).unwrap_or(true);
            Some(Outcome { observed, expected: format!("range_ok=true inside={}", inside), note: String::new() })
        }
        ["func", name] => {
            let observed = guard(|| {
                let mut c = Context::default();
                let r = match *name {
                    "floor" => fh::floor(vals(a), node.clone(), &mut c),
                    "ceiling" => fh::ceiling(vals(a), node.clone(), &mut c),
                    "round" => fh::round(vals(a), node.clone(), &mut c),
                    "boolean" => fh::boolean(vals(a), node.clone(), &mut c),
                    "not" => fh::not(vals(a), node.clone(), &mut c),
                    "true" => fh::ftrue(vals(a), node.clone(), &mut c),
                    "false" => fh::ffalse(vals(a), node.clone(), &mut c),
                    "number" => fh::number(vals(a), node.clone(), &mut c),
                    "substring" => fh::substring(vals(a), node.clone(), &mut c),
                    "string_length" => fh::string_length(vals(a), node.clone(), &mut c),
                    "translate" => fh::translate(vals(a), node.clone(), &mut c),
                    "sum" => fh::sum(vals(a), node.clone(), &mut c),
                    "count" => fh::count(vals(a), node.clone(), &mut c),
                    _ => return "unknown".to_string(),
                };
                show_res(r)
            });
            let n0 = args.first().and_then(num_of);
            let expected = match *name {
                "floor" => n0.map(|x| show_value(&Value::Number(x.floor())))?,
                "ceiling" => n0.map(|x| show_value(&Value::Number(x.ceil())))?,
                "round" => n0.map(|x| show_value(&Value::Number(xpath_round(x))))?,
                "boolean" => show_value(&Value::Boolean(bool_of(args.first()?)?)),
                "not" => show_value(&Value::Boolean(!bool_of(args.first()?)?)),
                "true" => show_value(&Value::Boolean(true)),
                "false" => show_value(&Value::Boolean(false)),
                "number" => n0.map(|x| show_value(&Value::Number(x)))?,
                "substring" => {
                    let s: Vec<char> = match args.first()? {
                        Value::Text(s) => s.chars().collect(),
                        _ => return None,
                    };
                    let x = num_of(args.get(1)?)?;
                    let y = match args.get(2) {
                        Some(v) => Some(num_of(v)?),
                        None => None,
                    };
                    show_value(&Value::Text(xpath_substring(&s, x, y).iter().collect()))
                }
                "string_length" => match args.first()? {
                    Value::Text(s) => show_value(&Value::Number(s.chars().count() as f64)),
                    _ => return None,
                },
                "translate" => {
                    // XPath 1.0 4.2: characters of s1 that occur in s2 are replaced by the character at the same position of
                    // s3 (first occurrence in s2 counts), or removed when s3 is shorter
                    let t = |v: Option<&Value>| match v {
                        Some(Value::Text(s)) => Some(s.chars().collect::<Vec<char>>()),
                        _ => None,
                    };
                    let (s1, s2, s3) = (t(args.first())?, t(args.get(1))?, t(args.get(2))?);
                    let mut out = String::new();
                    for ch in s1 {
                        match s2.iter().position(|v| *v == ch) {
                            Some(i) => {
                                if i < s3.len() {
                                    out.push(s3[i]);
                                }
                            }
                            None => out.push(ch),
                        }
                    }
                    show_value(&Value::Text(out))
                }
                "sum" => show_value(&Value::Number(0.0)),
                "count" => show_value(&Value::Number(0.0)),
                _ => return None,
            };
            Some(Outcome { observed, expected, note: String::new() })
        }
        ["cmp", name] => {
            let (x, y) = (args.first()?, args.get(1)?);
            let observed = guard(|| {
                let r = match *name {
                    "equal_value" => ch::equal_value(x, y),
                    "not_equal_value" => ch::not_equal_value(x, y),
                    "less_than_value" => ch::less_than_value(x, y),
                    "less_eq_value" => ch::less_eq_value(x, y),
                    "greater_than_value" => ch::greater_than_value(x, y),
                    "greater_eq_value" => ch::greater_eq_value(x, y),
                    _ => return "unknown".into(),
                };
                match r {
                    Ok(b) => b.to_string(),
                    Err(_) => "Err".into(),
                }
            });
            let isb = |v: &Value| matches!(v, Value::Boolean(_));
            let expected = match *name {
                "equal_value" | "not_equal_value" => {
                    let eq = if isb(x) || isb(y) { bool_of(x)? == bool_of(y)? } else { num_of(x)? == num_of(y)? };
                    (if *name == "equal_value" { eq } else { !eq }).to_string()
                }
                "less_than_value" => (num_of(x)? < num_of(y)?).to_string(),
                "less_eq_value" => (num_of(x)? <= num_of(y)?).to_string(),
                "greater_than_value" => (num_of(x)? > num_of(y)?).to_string(),
                "greater_eq_value" => (num_of(x)? >= num_of(y)?).to_string(),
                _ => return None,
            };
            Some(Outcome { observed, expected, note: String::new() })
        }
        ["op", name] => {
            let x = num_of(args.first()?)?;
            let observed = guard(|| {
                let mut it = vals(a).into_iter();
                let p = it.next().unwrap();
                let q = it.next();
                let r = match *name {
                    "add" => p + q.unwrap(),
                    "sub" => p - q.unwrap(),
                    "mul" => p * q.unwrap(),
                    "div" => p / q.unwrap(),
                    "rem" => p % q.unwrap(),
                    "neg" => -p,
                    _ => return "unknown".into(),
                };
                show_value(&r)
            });
            let y = args.get(1).and_then(num_of);
            let e = match *name {
                "add" => x + y?,
                "sub" => x - y?,
                "mul" => x * y?,
                "div" => x / y?,
                "rem" => x % y?,
                "neg" => {
                    // the sign of a zero result is left unconstrained (see DESIGN C09)
                    let r = -x;
                    if r == 0.0 {
                        let o = observed.clone();
                        return Some(Outcome { expected: if o.contains("Number(0.0") || o.contains("Number(-0.0") { o.clone() } else { "Number(+-0)".into() }, observed: o, note: String::new() });
                    }
                    r
                }
                _ => return None,
            };
            Some(Outcome { observed, expected: show_value(&Value::Number(e)), note: String::new() })
        }
        ["conv", name] => {
            let x = args.first()?;
            let observed = guard(|| match *name {
                "bool" => bool::try_from(x).map(|b| b.to_string()).unwrap_or("Err".into()),
                "number" => f64::try_from(x).map(|v| show_value(&Value::Number(v))).unwrap_or("Err".into()),
                _ => "unknown".into(),
            });
            let expected = match *name {
                "bool" => bool_of(x)?.to_string(),
                "number" => show_value(&Value::Number(num_of(x)?)),
                _ => return None,
            };
            Some(Outcome { observed, expected, note: String::new() })
        }
        _ => None,
    }
}

// ------------------------------------------------------------------------------------------------
// whole queries through xml_xpath::query on a real parsed document (C06 no panic, C07 ordered sets, C19 context reuse)

fn show_query(doc: &xml_dom::XmlDocument, q: &str, c: &mut Context) -> String {
    match xml_xpath::query(doc.clone(), q, c) {
        Ok(Value::Node(ns)) => format!("Node(order keys {:?})", ns.iter().map(|n| n.order()).collect::<Vec<_>>()),
        Ok(v) => show_value(&v),
        Err(e) => format!("Err({})", e),
    }
}

pub const QUERY_DOCS: [&str; 3] = [
    "<r x='1' y='2'><a/><b><c/><d/></b><?p d?><!--k--><e>t</e></r>",
    "<r xmlns:n='u'><n:a/><b n:z='1'><n:a/></b></r>",
    "<r/>",
];

// (document, expression, string value of the result); q is bound to "u", w to "w"
pub const NAME_CASES: [(&str, &str, &str); 28] = [
    ("<r xmlns='u' a='1'><b c='2'/></r>", "count(//@a)", "1"),
    ("<r xmlns='u' a='1'><b c='2'/></r>", "count(//@q:a)", "0"),
    ("<r xmlns='u' a='1'><b c='2'/></r>", "namespace-uri(//@a)", ""),
    ("<r xmlns='u' a='1'><b c='2'/></r>", "count(//q:b/@c)", "1"),
    ("<r xmlns='u' a='1'><b c='2'/></r>", "count(//q:b)", "1"),
    ("<r xmlns='u' a='1'><b c='2'/></r>", "count(//b)", "0"),
    ("<r xmlns='u' a='1'><b c='2'/></r>", "name(//@c)", "c"),
    ("<r xmlns='u' a='1'><b c='2'/></r>", "namespace-uri(/*/*)", "u"),
    ("<r xmlns:p='u' p:a='1' a='2'/>", "count(//@q:a)", "1"),
    ("<r xmlns:p='u' p:a='1' a='2'/>", "count(//@a)", "1"),
    ("<r xmlns:p='u' p:a='1' a='2'/>", "string(//@q:a)", "1"),
    ("<r xmlns:p='u' p:a='1' a='2'/>", "string(//@a)", "2"),
    ("<r xmlns:p='u' p:a='1' a='2'/>", "namespace-uri(//@q:a)", "u"),
    ("<r xmlns='u'><a xmlns=''><b/></a><c/></r>", "count(//q:*)", "2"),
    ("<r xmlns='u'><a xmlns=''><b/></a><c/></r>", "count(//a/b)", "1"),
    ("<r xmlns='u'><a xmlns=''><b/></a><c/></r>", "namespace-uri(//a)", ""),
    ("<r xmlns:p='u'><a xmlns:p='w'><p:b/></a><p:c/></r>", "count(//w:b)", "1"),
    ("<r xmlns:p='u'><a xmlns:p='w'><p:b/></a><p:c/></r>", "count(//q:b)", "0"),
    ("<r xmlns:p='u'><a xmlns:p='w'><p:b/></a><p:c/></r>", "count(//q:c)", "1"),
    ("<r xmlns:p='u'><a xmlns:p='w'><p:b/></a><p:c/></r>", "name(//q:c)", "p:c"),
    ("<r xml:lang='en'/>", "namespace-uri(//@*)", "http://www.w3.org/XML/1998/namespace"),
    ("<r xml:lang='en'/>", "count(//@lang)", "0"),
    ("<n:r xmlns:n='u' xmlns:m='u'><m:a/></n:r>", "count(//q:a) + count(/q:r)", "2"),
    ("<n:r xmlns:n='u' xmlns:m='u'><m:a/></n:r>", "local-name(/*/*)", "a"),
    ("<r xmlns:a='A' xmlns='u'><e1 xmlns=''><e2/></e1></r>", "count(//e2)", "1"),
    ("<r xmlns:a='A' xmlns='u'><e1 xmlns=''><e2/></e1></r>", "count(//q:e2)", "0"),
    ("<r xmlns:a='A' xmlns='u'><e1 xmlns=''><e2/></e1></r>", "count(/q:r/e1/namespace::*)", "2"),
    ("<r xmlns:a='A' xmlns:b='w'><c xmlns:b='u'><b:d/></c></r>", "count(//q:d) + count(/r/c/namespace::*)", "4"),
];

// XPath 1.0 4.4 number() on strings, 4.2 string() on numbers: (expression, string value of the result)
pub const NUMBER_CASES: [(&str, &str); 40] = [
    ("number(' 12 ')", "12"), ("number('\t\n1\r')", "1"), ("number('12')", "12"), ("number('-12')", "-12"), ("number('12.5')", "12.5"), ("number('-.5')", "-0.5"),
    ("number('5.')", "5"), ("number('.5')", "0.5"), ("number('  -0.25  ')", "-0.25"), ("number('007')", "7"),
    ("number('1e3')", "NaN"), ("number('1E3')", "NaN"), ("number('+1')", "NaN"), ("number('inf')", "NaN"), ("number('Infinity')", "NaN"), ("number('-Infinity')", "NaN"),
    ("number('infinity')", "NaN"), ("number('nan')", "NaN"), ("number('NaN')", "NaN"), ("number('- 1')", "NaN"), ("number('1 2')", "NaN"), ("number('')", "NaN"),
    ("number('   ')", "NaN"), ("number('.')", "NaN"), ("number('-')", "NaN"), ("number('-.')", "NaN"), ("number('1.2.3')", "NaN"), ("number('--1')", "NaN"),
    ("number('1-')", "NaN"), ("number('0x10')", "NaN"), ("number('1_0')", "NaN"), ("number('\u{a0}1')", "NaN"), ("number('\u{661}')", "NaN"),
    ("number(/r)", "7"), ("/r/@a + 1", "13"), ("/r/@b + 0", "NaN"), ("/r/@c + 0", "NaN"), ("/r/@d + 0", "NaN"), ("' 12 ' = 12", "true"), ("/r/@a = 12", "true"),
];

// XPath 1.0 5: string-values of nodes (references in content expanded, as the tools parse)
pub const STRING_CASES: [(&str, &str, &str); 16] = [
    ("<!DOCTYPE r [<!ENTITY e 'v'>]><r>a&e;b</r>", "string(/r)", "avb"),
    ("<!DOCTYPE r [<!ENTITY e 'v'>]><r>a&e;b</r>", "count(/r/text())", "1"),
    ("<r>a&lt;b&#65;c<![CDATA[<d>]]><!--x--><?p y?><s>e</s></r>", "string(/r)", "a<bAc<d>e"),
    ("<r>a&lt;b&#65;c<![CDATA[<d>]]><!--x--><?p y?><s>e</s></r>", "string(/)", "a<bAc<d>e"),
    ("<r>a&lt;b&#65;c<![CDATA[<d>]]><!--x--><?p y?><s>e</s></r>", "string(/r/text()[1])", "a<bAc<d>"),
    ("<r>a&lt;b&#65;c<![CDATA[<d>]]><!--x--><?p y?><s>e</s></r>", "string(/r/comment())", "x"),
    ("<r>a&lt;b&#65;c<![CDATA[<d>]]><!--x--><?p y?><s>e</s></r>", "string(/r/processing-instruction())", "y"),
    ("<r>a&lt;b&#65;c<![CDATA[<d>]]><!--x--><?p y?><s>e</s></r>", "string-length(/r)", "9"),
    ("<r>a&lt;b&#65;c<![CDATA[<d>]]><!--x--><?p y?><s>e</s></r>", "count(/r/node())", "4"),
    ("<!DOCTYPE r [<!ENTITY e 'v'>]><r><s>&e;</s>&e;</r>", "string(/r)", "vv"),
    ("<r k=' a  b '><s> t </s></r>", "string(/r/@k)", " a  b "),
    ("<r k=' a  b '><s> t </s></r>", "string(/r)", " t "),
    ("<r k='x&#10;y'/>", "string-length(/r/@k)", "3"),
    ("<r><a>1</a><a>2</a></r>", "string(/r/a)", "1"),
    ("<r><a>1</a><a>2</a></r>", "sum(/r/a)", "3"),
    ("<r><a>1</a><a>2</a></r>", "/r/a = 2", "true"),
];

// XPath 1.0 2.4: a predicate whose value is a number is true exactly when the number equals the proximity position
pub const PREDICATE_CASES: [(&str, &str); 24] = [
    ("name(/r/*[1])", "a"), ("name(/r/*[2])", "c"), ("name(/r/*[3.0])", "i"), ("count(/r/*[1.5])", "0"), ("count(/r/*[2.9])", "0"), ("count(/r/*[0.5])", "0"),
    ("count(/r/*[0])", "0"), ("count(/r/*[-1])", "0"), ("count(/r/*[4])", "0"), ("count(/r/*[0 div 0])", "0"), ("count(/r/*[1 div 0])", "0"),
    ("count(/r/*[0.5 + 0.5])", "1"), ("count(/r/*[position() = 1.5])", "0"), ("count(/r/*[last()])", "1"), ("count(/r/*['x'])", "3"), ("count(/r/*[''])", "0"),
    // several predicates on one step: each one counts positions among the nodes the previous one kept, in axis order
    ("name(/r/i/preceding-sibling::*[1])", "c"), ("name(/r/i/preceding-sibling::*[2])", "a"), ("name(/r/i/preceding-sibling::*[self::a or self::c][1])", "c"),
    ("name(/r/i/preceding-sibling::*[self::a][1])", "a"), ("name(//h/ancestor::*[self::c or self::r][1])", "c"), ("name(//h/ancestor::*[self::c or self::r][2])", "r"),
    ("name(//h/ancestor::*[not(self::g)][1])", "c"), ("name(/r/*[self::c or self::i][2])", "i"),
];

// the thirteen axes on one document; expected: string value of the expression (names joined by the expression itself)
pub const AXIS_DOC: &str = "<r><a><b><e/></b><f/></a><c><d/><g><h/></g></c><i/></r>";
pub const AXIS_CASES: [(&str, &str); 30] = [
    ("count(//b/following::*)", "6"), ("name(//b/following::*[1])", "f"), ("name(//b/following::*[2])", "c"), ("name(//b/following::*[6])", "i"),
    ("count(//e/following::*)", "6"), ("count(//h/following::*)", "1"), ("name(//h/following::*)", "i"), ("count(//i/following::*)", "0"),
    ("count(//d/preceding::*)", "4"), ("name(//d/preceding::*[1])", "f"), ("name(//d/preceding::*[2])", "e"), ("name(//d/preceding::*[4])", "a"),
    ("count(//h/preceding::*)", "5"), ("name(//h/preceding::*[1])", "d"), ("count(//a/preceding::*)", "0"), ("count(//i/preceding::*)", "8"),
    ("count(//h/ancestor::*)", "3"), ("name(//h/ancestor::*[1])", "g"), ("name(//h/ancestor::*[3])", "r"), ("count(//h/ancestor-or-self::*)", "4"),
    ("count(/r/descendant::*)", "9"), ("name(/r/descendant::*[3])", "e"), ("count(//a/descendant-or-self::*)", "4"),
    ("count(//a/following-sibling::*)", "2"), ("name(//i/preceding-sibling::*[1])", "c"), ("name(//i/preceding-sibling::*[2])", "a"),
    ("count(//c/child::*)", "2"), ("name(//g/parent::*)", "c"), ("count(//e/following::* | //e/preceding::* | //e/ancestor::* | //e/descendant::* | //e/self::*)", "10"),
    ("count(//h/following::node() | //h/preceding::node() | //h/ancestor::node() | //h/descendant::node() | //h/self::node())", "11"),
];

pub const FUNC_DOCS: [&str; 3] = [
    // a namespace declaration whose value cannot be computed (entities that refer to each other)
    "<!DOCTYPE r [<!ENTITY a '&b;'><!ENTITY b '&a;'>]><r xmlns:p='&a;' lang='x'><a/></r>",
    "<r xml:lang='\u{65e5}\u{672c}\u{8a9e}' lang='e\u{20ac}'><a lang='\u{e9}' x='\u{1d4b3}'>\u{e9}\u{20ac}\u{1d4b3}</a><b lang=''/><!--\u{e9}--><?p \u{e9}?></r>",
    "<!DOCTYPE r [<!ATTLIST r i ID #IMPLIED>]><r i='k' lang='en-US'><a lang='EN'>x</a> </r>",
];
pub const FUNC_CALLS: [&str; 60] = [
    "lang('en')", "lang('e')", "lang('')", "lang('\u{65e5}')", "lang('\u{e9}\u{e9}')", "lang(.)", "lang(//a)", "lang(1)",
    "local-name()", "local-name(.)", "local-name(//@*)", "local-name(/)", "local-name(//comment())", "name()", "name(//@*)", "name(//processing-instruction())", "namespace-uri()", "namespace-uri(//@*)", "name(//namespace::*)",
    "string()", "string(.)", "string(//@*)", "string(/)", "concat('\u{e9}', ., //@*)", "concat('', '')",
    "starts-with(., '\u{e9}')", "starts-with('', '')", "starts-with('\u{e9}', '\u{20ac}\u{20ac}')", "contains(., '\u{20ac}')", "contains('', '')", "contains(//@lang, .)",
    "substring-before(., '\u{20ac}')", "substring-before('\u{e9}\u{20ac}', '')", "substring-before('', '\u{e9}')", "substring-after(., '\u{20ac}')", "substring-after('\u{e9}\u{20ac}', '\u{20ac}')", "substring-after('\u{e9}', '')",
    "substring(., 2)", "substring(., 0, 1)", "substring('\u{e9}\u{20ac}\u{1d4b3}', 1.5, 2.6)", "substring(., -1 div 0, 1 div 0)", "substring(., 0 div 0)", "string-length()", "string-length(//@x)",
    "normalize-space()", "normalize-space('  \u{e9}  \u{20ac} ')", "translate(., '\u{e9}\u{20ac}', 'x')", "translate('\u{1d4b3}', '\u{1d4b3}', '')",
    "boolean(.)", "not(//@*)", "number()", "number('\u{e9}')", "sum(//@*)", "sum(//a)", "floor(.)", "ceiling(//@x)", "round(-0.5)", "count(//node()) + position() + last()",
    "count(//namespace::*)", "//a/namespace::node()",
];

pub const QUERIES: [&str; 60] = [
    "//c | //a", "//a | //c", "//e | //b | //a", "(//d | //a)[1]", "//b/* | //b", "//@y | //@x", "//a | //a", "/r/* | /r/b/*",
    "//d/preceding::* | //e", "//e/ancestor::* | //a", "//c/.. | //a/..", "//*/.. | //b/c",
    "$x", "/r/@x/..", "/..", "parent::node()", "/r/@x/parent::node()", "//processing-instruction('p')", "id('a')", "/r/a/..",
    "//@*/..", "/r/a/parent::*", "/parent::node()", "//text()/..", "//comment()/parent::node()", "//namespace::*/..",
    "position()", "last()", "/r/*[position() = last()]", "/r/*[q:x]", "/r/*[. = //zz:a]", "/r/*[zz:f()]", "//*[nosuch()]",
    "/r/namespace::*[/r]", "//namespace::*[//a]", "/r/namespace::*[/]", "//namespace::*/..", "/r/namespace::*[count(/*) = 1]", "//*/namespace::*[(/r)[1]]",
    "(//d)/preceding-sibling::*", "(//e)/ancestor::*", "(//e)/preceding::*", "(//c)/ancestor-or-self::*", "((//e)/ancestor::*)[last()]", "(//d)/preceding-sibling::*[1]",
    "/r/a[id('x')]", "//b/id('x')", "count(/r/*[id(.)])",
    "//c | //zz | //a", "//e | //nothing | //a | //b", "(//d | //zz | //a)[1]",
    "translate('abc', 'ab', '\u{e9}')", "translate(//e, 'tx', '\u{1d4b3}')",
    "(//*)[nosuch(1)]", "(/r/*)[q:x]", "/r/b[c[q:x]]", "/r/*[1][q:x]", "//b/*[last()][zz:a]", "count(//*[q:x])", "/r/*[$v]",
];

pub fn xpath_query_op(kind: &str, a: &Args) -> Option<Outcome> {
    let docs = a.get("doc").cloned().unwrap_or_else(|| QUERY_DOCS[0].to_string());
    // as the xq / xe tools and the crate's own tests do: entity and character references in content are expanded (XPath data model)
    let (_, doc) = xml_dom::XmlDocument::from_raw_with_context(docs.as_str(), xml_dom::Context::from_text_expanded(true)).ok()?;
    let q = a.get("query").cloned().unwrap_or_default();
    match kind {
        // C19: `second` on a context that already served `first` must answer as on a fresh context
        "ctx_reuse" => {
            let second = a.get("second").cloned().unwrap_or_else(|| "concat(position(), '/', last())".to_string());
            let observed = guard(|| {
                let mut c = Context::default();
                let _ = std::panic::catch_unwind(std::panic::AssertUnwindSafe(|| {
                    let _ = xml_xpath::query(doc.clone(), q.as_str(), &mut c);
                }));
                show_query(&doc, second.as_str(), &mut c)
            });
            let expected = guard(|| show_query(&doc, second.as_str(), &mut Context::default()));
            Some(Outcome { observed, expected, note: format!("first query: {}", q) })
        }
        // C07: a node-set result lists strictly increasing document-order keys
        "order" => {
            let mut keys: Option<Vec<usize>> = None;
            let observed = guard(|| match xml_xpath::query(doc.clone(), q.as_str(), &mut Context::default()) {
                Ok(Value::Node(ns)) => {
                    let k: Vec<usize> = ns.iter().map(|n| n.order()).collect();
                    let s = format!("Node(order keys {:?})", k);
                    keys = Some(k);
                    s
                }
                Ok(v) => show_value(&v),
                Err(e) => format!("Err({})", e),
            });
            let expected = match keys {
                Some(mut k) => {
                    k.sort();
                    k.dedup();
                    format!("Node(order keys {:?})", k)
                }
                None => observed.clone(),
            };
            Some(Outcome { observed, expected, note: "expected = the same keys, strictly increasing".into() })
        }
        // C05 (node tests): the count a node test must select on a fixed document, worked out by hand from XPath 1.0 2.3
        "node_test" => {
            let d = "<r x='1' y='2'>t<a/><!--c--><?p d?><b>u<c/></b><![CDATA[z]]></r>";
            let (_, doc) = xml_dom::XmlDocument::from_raw(d).ok()?;
            let table: [(&str, &str); 20] = [
                ("count(/r/*)", "2"), ("count(/r/node())", "6"), ("count(/r/text())", "2"), ("count(/r/comment())", "1"),
                ("count(/r/processing-instruction())", "1"), ("count(/r/processing-instruction('p'))", "1"),
                ("count(/r/processing-instruction('q'))", "0"), ("count(/r/@*)", "2"), ("count(//*)", "4"), ("count(/r/b/*)", "1"),
                ("count(/r/child::*)", "2"), ("count(/r/descendant::*)", "3"), ("count(/r/a/following-sibling::*)", "1"),
                ("count(/r/b/preceding-sibling::*)", "1"), ("count(/r/namespace::*)", "1"), ("count(/r/namespace::node())", "1"),
                ("count((/r/*)[1]/self::a)", "1"), ("count(/r/*[2]/self::b)", "1"), ("count(/r/*[last()]/self::b)", "1"), ("count(/r/*[position() = 1]/self::a)", "1"),
            ];
            let (query, want) = table.iter().find(|t| t.0 == q.as_str()).copied()?;
            let observed = guard(|| show_query(&doc, query, &mut Context::default()));
            Some(Outcome { observed, expected: format!("Number({}.0 bits:{:#018x})", want, want.parse::<f64>().unwrap().to_bits()), note: d.to_string() })
        }
        // C10: name tests and name functions against expanded names; the caller binds q -> "u" and w -> "w"
        "names" | "axes" | "numbers" | "predicates" | "strings" => {
            let want = a.get("expected").cloned().unwrap_or_default();
            let observed = guard(|| {
                let mut c = Context::default();
                c.add_ns(Some("q"), "u");
                c.add_ns(Some("w"), "w");
                match xml_xpath::query(doc.clone(), q.as_str(), &mut c) {
                    Ok(v) => String::try_from(&v).unwrap_or_else(|_| "Err(conversion)".to_string()),
                    Err(_) => "Err".to_string(),
                }
            });
            Some(Outcome { observed, expected: want, note: docs.clone() })
        }
        // C06: a value or an error, never a panic
        "no_panic" => {
            let r = guard(|| {
                let _ = xml_xpath::query(doc.clone(), q.as_str(), &mut Context::default());
                "value-or-error".to_string()
            });
            let note = if r.starts_with("PANIC") { format!("panicked at {}", crate::LAST_PANIC_AT.lock().unwrap()) } else { String::new() };
            Some(Outcome { observed: r, expected: "value-or-error".into(), note })
        }
        _ => None,
    }
}

// ------------------------------------------------------------------------------------------------
// dom::XmlNode::order over every node of a parsed document: keys must be non-zero and pairwise distinct (C14)

pub const ORDER_DOCS: [&str; 4] = [
    "<r x='1'><a/><?p d?><b>t<![CDATA[c]]><!--k--></b><?q e?></r>",
    "<?top x?><r/><?tail y?>",
    "<!DOCTYPE r [<!ENTITY e 'v'>]><r a='&e;'>&e;<?p?></r>",
    "<r xmlns:n='u' n:a='1'><n:b/></r>",
];

pub fn dom_order_keys(doc: &str) -> Outcome {
    use xml_dom::{NamedNodeMap, Node, NodeList};
    fn walk(n: &xml_dom::XmlNode, out: &mut Vec<(String, usize)>) {
        out.push((format!("{:?}:{}", n.node_type(), n.node_name()), n.order()));
        if let Some(attrs) = n.attributes() {
            for a in attrs.iter() {
                out.push((format!("Attribute:{}", a.node_name()), a.as_node().order()));
            }
        }
        for c in n.child_nodes().iter() {
            walk(&c, out);
        }
    }
    let observed = guard(|| {
        let (_, d) = xml_dom::XmlDocument::from_raw(doc).unwrap();
        let mut all = vec![];
        walk(&d.as_node(), &mut all);
        let mut bad = vec![];
        for (i, (name, k)) in all.iter().enumerate() {
            if name.starts_with("DocumentType") || name.starts_with("Entity:") || name.starts_with("Notation") {
                continue;
            }
            if *k == 0 || all.iter().take(i).any(|(_, k2)| k2 == k) {
                bad.push(format!("{}={}", name, k));
            }
        }
        format!("nodes with a zero or repeated key: {:?}", bad)
    });
    Outcome { observed, expected: "nodes with a zero or repeated key: []".into(), note: String::new() }
}

// ------------------------------------------------------------------------------------------------
// C13: a tree mutator that FAILS must leave serialization and document-order keys unchanged

pub const TREE_SCENARIOS: [&str; 8] = [
    "append_ancestor",        // b.append_child(a) where a is b's parent           -> HierarchyRequestErr
    "insert_before_ancestor", // a.insert_before(r, b) where r is an ancestor of a -> HierarchyRequestErr
    "append_self",            // a.append_child(a)
    "doc_second_element",     // doc.append_child(a): a document has one element   -> HierarchyRequestErr
    "insert_before_self",     // r.insert_before(b, b)
    "attr_append_element",    // x.append_child(a): an attribute holds text and references only -> HierarchyRequestErr
    "attr_append_comment",    // x.append_child(<!--k-->)
    "append_ok",              // control: r.append_child(a) succeeds (no expectation beyond "no panic")
];

pub fn dom_tree_atomic(scenario: &str) -> Outcome {
    use xml_dom::{Document, Node, NodeList, NodeMut};
    fn snapshot(doc: &xml_dom::XmlDocument) -> String {
        fn walk(n: &xml_dom::XmlNode, out: &mut Vec<String>) {
            out.push(format!("{}#{}", n.node_name(), n.order()));
            for c in n.child_nodes().iter() {
                walk(&c, out);
            }
        }
        let mut keys = vec![];
        walk(&doc.as_node(), &mut keys);
        format!("{} keys=[{}]", doc, keys.join(" "))
    }
    let mut before = String::new();
    let observed = guard(|| {
        let (_, doc) = xml_dom::XmlDocument::from_raw("<r x='v'><a><b/></a><c/><!--k--></r>").unwrap();
        let r = doc.document_element().unwrap();
        let a = r.child_nodes().item(0).unwrap();
        let b = a.child_nodes().item(0).unwrap();
        let k = r.child_nodes().item(2).unwrap();
        let x = xml_dom::Element::get_attribute_node(&r, "x").unwrap();
        before = snapshot(&doc);
        let res = match scenario {
            "append_ancestor" => b.as_element().unwrap().append_child(a.clone()).map(|_| ()),
            "insert_before_ancestor" => a.as_element().unwrap().insert_before(r.as_node(), Some(&b)).map(|_| ()),
            "append_self" => a.as_element().unwrap().append_child(a.clone()).map(|_| ()),
            "doc_second_element" => doc.append_child(a.clone()).map(|_| ()),
            "insert_before_self" => a.as_element().unwrap().insert_before(b.clone(), Some(&b)).map(|_| ()),
            "attr_append_element" => x.append_child(a.clone()).map(|_| ()),
            "attr_append_comment" => x.append_child(k.clone()).map(|_| ()),
            _ => r.append_child(a.clone()).map(|_| ()),
        };
        match res {
            Ok(()) => "Ok".to_string(),
            Err(_) => format!("Err then {}", snapshot(&doc)),
        }
    });
    let expected = if observed.starts_with("Err") {
        format!("Err then {}", before)
    } else if observed.starts_with("PANIC") {
        "no panic".to_string()
    } else {
        observed.clone()
    };
    Outcome { observed, expected, note: "a refused mutator must leave the serialization and every order key unchanged".into() }
}

// ------------------------------------------------------------------------------------------------
// C12 / C14 after DOM edit histories (bounded stand-in material): navigational views agree; keys of attached nodes are
// non-zero and pairwise distinct

pub const EDIT_SCENARIOS: [&str; 22] = [
    "move_within_parent_before", "move_within_parent_append", "move_between_parents", "remove_then_reinsert",
    "remove_subtree_drop_then_set_attribute", "remove_middle_subtree_drop_then_set_attribute", "replace_child", "append_fragment_like_sequence", "split_text_then_move", "append_new_after_child_with_descendants", "set_attribute_on_element_with_children", "insert_new_before_first_child", "move_forward_within_parent", "move_before_own_next_sibling", "reappend_last_child_with_children", "move_out_of_detached_parent", "views_inside_removed_subtree", "append_child_to_element_with_late_namespace_declaration",
    "append_after_last_descendant_with_late_namespace_declaration", "change_attribute_value_then_append_child",
    "views_inside_detached_fragment", "views_after_attaching_a_fragment",
];

pub fn dom_after_edits(scenario: &str, what: &str) -> Outcome {
    use xml_dom::{Document, DocumentMut, Element, ElementMut, NamedNodeMap, Node, NodeList, NodeMut, TextMut};
    fn views(n: &xml_dom::XmlNode, bad: &mut Vec<String>) {
        let kids: Vec<xml_dom::XmlNode> = n.child_nodes().iter().collect();
        for (i, c) in kids.iter().enumerate() {
            match c.parent_node() {
                Some(p) if p.id() == n.id() => {}
                other => bad.push(format!("{} lists {} whose parent_node is {:?}", n.node_name(), c.node_name(), other.map(|v| v.node_name()))),
            }
            let prev = c.previous_sibling().map(|v| v.id());
            let next = c.next_sibling().map(|v| v.id());
            if prev != (if i > 0 { Some(kids[i - 1].id()) } else { None }) {
                bad.push(format!("previous_sibling of child {} of {} disagrees with the child list", i, n.node_name()));
            }
            if next != kids.get(i + 1).map(|v| v.id()) {
                bad.push(format!("next_sibling of child {} of {} disagrees with the child list", i, n.node_name()));
            }
            if kids.iter().filter(|k| k.id() == c.id()).count() != 1 {
                bad.push(format!("{} occurs more than once under {}", c.node_name(), n.node_name()));
            }
            views(c, bad);
        }
        if n.first_child().map(|v| v.id()) != kids.first().map(|v| v.id()) || n.last_child().map(|v| v.id()) != kids.last().map(|v| v.id()) {
            bad.push(format!("first_child / last_child of {} disagree with the child list", n.node_name()));
        }
    }
    fn keys(n: &xml_dom::XmlNode, all: &mut Vec<(String, usize)>) {
        all.push((n.node_name(), n.order()));
        if let Some(attrs) = n.attributes() {
            for a in attrs.iter() {
                all.push((format!("@{}", a.node_name()), a.as_node().order()));
            }
        }
        for c in n.child_nodes().iter() {
            keys(&c, all);
        }
    }
    let observed = guard(|| {
        let (_, doc) = xml_dom::XmlDocument::from_raw("<r x='v'><a><b/>t</a><c/><d><e/><f/></d></r>").unwrap();
        let r = doc.document_element().unwrap();
        let a = r.child_nodes().item(0).unwrap();
        let c = r.child_nodes().item(1).unwrap();
        let d = r.child_nodes().item(2).unwrap();
        match scenario {
            "move_within_parent_before" => {
                r.insert_before(d.clone(), Some(&a)).unwrap();
            }
            "move_within_parent_append" => {
                r.append_child(a.clone()).unwrap();
            }
            "move_between_parents" => {
                d.as_element().unwrap().append_child(a.clone()).unwrap();
            }
            "remove_then_reinsert" => {
                r.remove_child(&c).unwrap();
                r.insert_before(c.clone(), Some(&a)).unwrap();
            }
            "remove_subtree_drop_then_set_attribute" => {
                {
                    let gone = r.remove_child(&d).unwrap();
                    drop(gone);
                }
                drop(d);
                let _ = xml_xpath::query(doc.clone(), "//*", &mut Context::default());
                r.set_attribute("z", "1").unwrap();
            }
            "remove_middle_subtree_drop_then_set_attribute" => {
                {
                    let gone = r.remove_child(&a).unwrap();
                    drop(gone);
                }
                drop(a);
                let _ = xml_xpath::query(doc.clone(), "//*", &mut Context::default());
                r.set_attribute("z", "1").unwrap();
            }
            "replace_child" => {
                let n = doc.create_element("n").unwrap();
                r.replace_child(n.as_node(), &c).unwrap();
            }
            "append_fragment_like_sequence" => {
                for name in ["p", "q"] {
                    let n = doc.create_element(name).unwrap();
                    a.as_element().unwrap().append_child(n.as_node()).unwrap();
                }
            }
            "append_new_after_child_with_descendants" => {
                let n = doc.create_element("n").unwrap();
                r.append_child(n.as_node()).unwrap();
            }
            "set_attribute_on_element_with_children" => {
                a.as_element().unwrap().set_attribute("k", "1").unwrap();
            }
            "move_forward_within_parent" => {
                r.insert_before(a.clone(), Some(&d)).unwrap();
            }
            "move_before_own_next_sibling" => {
                r.insert_before(a.clone(), Some(&c)).unwrap();
            }
            "reappend_last_child_with_children" => {
                r.append_child(d.clone()).unwrap();
            }
            "move_out_of_detached_parent" => {
                // a parent that was created and never inserted must still know (and forget) its children
                let p = doc.create_element("p").unwrap();
                let t = doc.create_text_node("x");
                p.append_child(t.as_node()).unwrap();
                r.append_child(t.as_node()).unwrap();
                if what == "views" {
                    let mut bad = vec![];
                    if p.child_nodes().length() != 0 {
                        bad.push(format!("the detached parent still lists {} child(ren) after its child was moved away", p.child_nodes().length()));
                    }
                    views(&doc.as_node(), &mut bad);
                    return format!("disagreements: {:?}", bad);
                }
            }
            "views_inside_removed_subtree" => {
                // a removed subtree is still a tree: its children name its root as parent
                let gone = r.remove_child(&d).unwrap();
                if what == "views" {
                    let mut bad = vec![];
                    views(&gone, &mut bad);
                    views(&doc.as_node(), &mut bad);
                    return format!("disagreements: {:?}", bad);
                }
            }
            "views_inside_detached_fragment" | "views_after_attaching_a_fragment" => {
                // a subtree built from created nodes (none of them numbered yet): three children and a grandchild
                let p = doc.create_element("p").unwrap();
                let k1 = doc.create_element("k1").unwrap();
                let k2 = doc.create_text_node("k2");
                let k3 = doc.create_element("k3").unwrap();
                let g = doc.create_comment("g");
                p.append_child(k1.as_node()).unwrap();
                p.append_child(k2.as_node()).unwrap();
                p.append_child(k3.as_node()).unwrap();
                k3.append_child(g.as_node()).unwrap();
                if scenario == "views_after_attaching_a_fragment" {
                    r.insert_before(p.as_node(), Some(&c)).unwrap();
                }
                if what == "views" {
                    let mut bad = vec![];
                    views(&p.as_node(), &mut bad);
                    views(&doc.as_node(), &mut bad);
                    return format!("disagreements: {:?}", bad);
                }
            }
            "append_child_to_element_with_late_namespace_declaration" => {
                let (_, doc2) = xml_dom::XmlDocument::from_raw("<a x=\"1\" xmlns:p=\"urn:p\" />").unwrap();
                let a2 = doc2.document_element().unwrap();
                let c2 = doc2.create_element("c").unwrap();
                a2.append_child(c2.as_node()).unwrap();
                if what == "preorder" || what == "keys" {
                    let mut all = vec![];
                    keys(&doc2.as_node(), &mut all);
                    // attributes among themselves are unordered: only element < attributes < children is demanded
                    let el = all.iter().find(|v| v.0 == "a").map(|v| v.1).unwrap_or(0);
                    let ch = all.iter().find(|v| v.0 == "c").map(|v| v.1).unwrap_or(0);
                    let mut bad = vec![];
                    for (n, k) in all.iter().filter(|v| v.0.starts_with('@')) {
                        if !(el < *k && *k < ch) {
                            bad.push(format!("{}={} is not between a={} and c={}", n, k, el, ch));
                        }
                    }
                    return format!("disagreements: {:?}", bad);
                }
            }
            "append_after_last_descendant_with_late_namespace_declaration" => {
                // the last descendant of the element appended to is a childless element whose namespace declaration is
                // written AFTER a plain attribute: its last item in document order is not its last stored attribute
                let (_, doc2) = xml_dom::XmlDocument::from_raw("<r><b><a x=\"1\" xmlns:p=\"urn:p\"/></b></r>").unwrap();
                let r2 = doc2.document_element().unwrap();
                let c2 = doc2.create_element("c").unwrap();
                r2.append_child(c2.as_node()).unwrap();
                if what == "preorder" || what == "keys" {
                    let mut all = vec![];
                    keys(&doc2.as_node(), &mut all);
                    let ch = all.iter().find(|v| v.0 == "c").map(|v| v.1).unwrap_or(0);
                    let mut bad = vec![];
                    for (n, k) in all.iter().filter(|v| v.0 != "c") {
                        if !(*k != 0 && *k < ch) {
                            bad.push(format!("{}={} is not before the appended c={}", n, k, ch));
                        }
                    }
                    return format!("disagreements: {:?}", bad);
                }
            }
            "change_attribute_value_then_append_child" => {
                // the value of an ATTACHED attribute is replaced (its value items are new), then the childless element gets a
                // child: everything must stay in pre-order (element, attribute, its value, the new child, the next sibling)
                let (_, doc2) = xml_dom::XmlDocument::from_raw("<r><a x=\"1\"/><c/></r>").unwrap();
                let r2 = doc2.document_element().unwrap();
                let a2 = r2.child_nodes().item(0).unwrap().as_element().unwrap();
                let x2 = xml_dom::Element::get_attribute_node(&a2, "x").unwrap();
                x2.set_node_value("2").unwrap();
                let n2 = doc2.create_element("n").unwrap();
                a2.append_child(n2.as_node()).unwrap();
                if what == "preorder" || what == "keys" {
                    let mut all = vec![];
                    keys(&doc2.as_node(), &mut all);
                    let mut bad = vec![];
                    for w in all.windows(2) {
                        if w[0].1 == 0 || w[0].1 >= w[1].1 {
                            bad.push(format!("{}={} is followed by {}={}", w[0].0, w[0].1, w[1].0, w[1].1));
                        }
                    }
                    return format!("disagreements: {:?}", bad);
                }
            }
            "insert_new_before_first_child" => {
                let n = doc.create_element("n").unwrap();
                r.insert_before(n.as_node(), Some(&a)).unwrap();
            }
            _ => {
                let t = a.child_nodes().item(1).unwrap().as_text().unwrap();
                let t2 = t.split_text(0).unwrap();
                r.append_child(t2.as_node()).unwrap();
            }
        }
        if what == "children" {
            // the child list of the document element after the edit, as DOM Level 1 prescribes it
            let names: Vec<String> = r.child_nodes().iter().map(|n| n.node_name()).collect();
            return format!("children of r: {}", names.join(" "));
        }
        if what == "preorder" {
            // element, then its attributes, then its children: keys strictly increasing along that walk
            let mut all = vec![];
            keys(&doc.as_node(), &mut all);
            let mut bad = vec![];
            for w in all.windows(2) {
                if w[0].1 >= w[1].1 {
                    bad.push(format!("{}={} is followed by {}={}", w[0].0, w[0].1, w[1].0, w[1].1));
                }
            }
            return format!("disagreements: {:?}", bad);
        }
        if what == "views" {
            let mut bad = vec![];
            views(&doc.as_node(), &mut bad);
            format!("disagreements: {:?}", bad)
        } else {
            let mut all = vec![];
            keys(&doc.as_node(), &mut all);
            let mut bad = vec![];
            for (i, (name, k)) in all.iter().enumerate() {
                if *k == 0 || all.iter().take(i).any(|(_, k2)| k2 == k) {
                    bad.push(format!("{}={}", name, k));
                }
            }
            format!("disagreements: {:?}", bad)
        }
    });
    let expected = if what == "children" {
        format!("children of r: {}", match scenario {
            "move_within_parent_before" => "d a c",
            "move_within_parent_append" => "c d a",
            "move_between_parents" => "c d",
            "remove_then_reinsert" => "c a d",
            "remove_subtree_drop_then_set_attribute" => "a c",
            "remove_middle_subtree_drop_then_set_attribute" => "c d",
            "replace_child" => "a n d",
            "append_fragment_like_sequence" => "a c d",
            "append_new_after_child_with_descendants" => "a c d n",
            "set_attribute_on_element_with_children" => "a c d",
            "insert_new_before_first_child" => "n a c d",
            "move_forward_within_parent" => "c a d",
            "move_before_own_next_sibling" => "a c d",
            "reappend_last_child_with_children" => "a c d",
            "move_out_of_detached_parent" => "a c d #text",
            "views_inside_removed_subtree" => "a c",
            "append_child_to_element_with_late_namespace_declaration" => "a c d",
            "append_after_last_descendant_with_late_namespace_declaration" => "a c d",
            "change_attribute_value_then_append_child" => "a c d",
            "views_inside_detached_fragment" => "a c d",
            "views_after_attaching_a_fragment" => "a p c d",
            _ => "a c d #text",
        })
    } else {
        "disagreements: []".to_string()
    };
    Outcome { observed, expected, note: scenario.to_string() }
}

pub fn f64_grid() -> Vec<String> {
    let mut v: Vec<String> = vec![];
    for x in [
        0.0f64, -0.0, 0.5, -0.5, 1.0, -1.0, 1.5, -1.5, 2.5, -2.5, 0.49999999999999994, -0.49999999999999994, 3.0, 4.0, 1e15, -1e15,
        4503599627370497.0, 9007199254740993.0, 1e300, -1e300, 5e-324, -5e-324, f64::INFINITY, f64::NEG_INFINITY,
    ] {
        v.push(format!("n:bits:{:#018x}", x.to_bits()));
    }
    v.push("n:NaN".into());
    v
}

pub fn xpath_grid(rest: &[&str]) -> Vec<Args> {
    let mut out = vec![];
    let nums = f64_grid();
    let bools = ["b:true", "b:false"];
    let mk = |pairs: &[(&str, &str)]| -> Args { pairs.iter().map(|(k, v)| (k.to_string(), v.to_string())).collect() };
    match rest {
        ["query", "node_test"] => {
            for q in ["count(/r/*)", "count(/r/node())", "count(/r/text())", "count(/r/comment())", "count(/r/processing-instruction())",
                      "count(/r/processing-instruction('p'))", "count(/r/processing-instruction('q'))", "count(/r/@*)", "count(//*)", "count(/r/b/*)",
                      "count(/r/child::*)", "count(/r/descendant::*)", "count(/r/a/following-sibling::*)", "count(/r/b/preceding-sibling::*)", "count(/r/namespace::*)", "count(/r/namespace::node())",
                      "count((/r/*)[1]/self::a)", "count(/r/*[2]/self::b)", "count(/r/*[last()]/self::b)", "count(/r/*[position() = 1]/self::a)"] {
                out.push(mk(&[("query", q)]));
            }
        }
        ["query", "names"] => {
            for (d, q, e) in NAME_CASES {
                out.push(mk(&[("doc", d), ("query", q), ("expected", e)]));
            }
        }
        ["query", "numbers"] => {
            for (q, e) in NUMBER_CASES {
                out.push(mk(&[("doc", "<r a=' 12 ' b='1e3' c='+1' d='inf'> 7 </r>"), ("query", q), ("expected", e)]));
            }
        }
        ["query", "strings"] => {
            for (d, q, e) in STRING_CASES {
                out.push(mk(&[("doc", d), ("query", q), ("expected", e)]));
            }
        }
        ["query", "predicates"] => {
            for (q, e) in PREDICATE_CASES {
                out.push(mk(&[("doc", AXIS_DOC), ("query", q), ("expected", e)]));
            }
        }
        ["query", "axes"] => {
            for (q, e) in AXIS_CASES {
                out.push(mk(&[("doc", AXIS_DOC), ("query", q), ("expected", e)]));
            }
        }
        ["query", kind] => {
            for d in QUERY_DOCS {
                for q in QUERIES {
                    out.push(mk(&[("doc", d), ("query", q)]));
                }
            }
            if *kind == "no_panic" {
                // the core function library over empty, multi-byte and mismatched arguments, with every kind of context node
                for d in FUNC_DOCS {
                    for f in FUNC_CALLS {
                        out.push(mk(&[("doc", d), ("query", f)]));
                        let inner = format!("//*[{}]", f);
                        out.push(mk(&[("doc", d), ("query", inner.as_str())]));
                        let on_attr = format!("//@*[{}]", f);
                        out.push(mk(&[("doc", d), ("query", on_attr.as_str())]));
                    }
                }
            }
        }
        ["func", "substring"] => {
            for s in ["s:", "s:a", "s:ab", "s:12345", "s:a\u{e9}\u{1d4b3} b"] {
                for x in &nums {
                    out.push(mk(&[("a0", s), ("a1", x.as_str())]));
                    for y in &nums {
                        out.push(mk(&[("a0", s), ("a1", x.as_str()), ("a2", y.as_str())]));
                    }
                }
            }
        }
        ["func", "translate"] => {
            for s1 in ["s:", "s:abc", "s:a\u{e9}b\u{1d4b3}", "s:--aaa--"] {
                for s2 in ["s:", "s:a", "s:ab", "s:abc", "s:aba", "s:\u{e9}\u{1d4b3}a"] {
                    for s3 in ["s:", "s:A", "s:\u{e9}", "s:AB", "s:\u{1d4b3}\u{e9}x", "s:ABCD"] {
                        out.push(mk(&[("a0", s1), ("a1", s2), ("a2", s3)]));
                    }
                }
            }
        }
        ["func", "string_length"] => {
            for s in ["s:", "s:a", "s:\u{e9}", "s:a\u{e9}\u{1d4b3} b"] {
                out.push(mk(&[("a0", s)]));
            }
        }
        ["func", "true"] | ["func", "false"] => out.push(mk(&[])),
        ["func", "sum"] | ["func", "count"] => out.push(mk(&[("a0", "nodes:0")])),
        ["func", "boolean"] | ["func", "not"] | ["conv", "bool"] => {
            for x in nums.iter().map(|s| s.as_str()).chain(bools).chain(["s:", "s:a", "nodes:0"]) {
                out.push(mk(&[("a0", x)]));
            }
        }
        ["func", _] | ["conv", _] | ["op", "neg"] => {
            for x in nums.iter().map(|s| s.as_str()).chain(bools) {
                out.push(mk(&[("a0", x)]));
            }
        }
        ["cmp", _] | ["op", _] => {
            let all: Vec<&str> = nums.iter().map(|s| s.as_str()).chain(bools).collect();
            for x in &all {
                for y in &all {
                    out.push(mk(&[("a0", x), ("a1", y)]));
                }
            }
        }
        _ => {}
    }
    out
}

// ------------------------------------------------------------------------------------------------
// C03: entity expansion in attribute values (info::attr_value_from_name).  A stack overflow aborts the process, so
// the real call runs in a child process (this same binary, op `info.attr_value_inproc`) under a wall-clock limit.

pub const ENTITY_DOCS: [&str; 15] = [
    "<!DOCTYPE r [<!ENTITY a \"v\">]><r x=\"&a;\"/>",
    "<!DOCTYPE r [<!ENTITY a \"&b;\"><!ENTITY b \"w\">]><r x=\"p&a;q\"/>",
    "<!DOCTYPE r [<!ENTITY a \"&b;&b;\"><!ENTITY b \"&c;&c;\"><!ENTITY c \"z\">]><r x=\"&a;\"/>",
    "<!DOCTYPE r [<!ENTITY a \"&#65;&#x42;\">]><r x=\"&a;&lt;\"/>",
    "<r x=\"&lt;&amp;&gt;&quot;&apos;\"/>",
    "<!DOCTYPE r [<!ENTITY a \"&lt;\">]><r x=\"&a;\"/>",
    "<!DOCTYPE r [<!ENTITY a \"&b;\"><!ENTITY b \"&a;\">]><r x=\"&a;\"/>",
    "<!DOCTYPE r [<!ENTITY a \"x&a;\">]><r x=\"&a;\"/>",
    "<!DOCTYPE r [<!ENTITY a \"&b;\"><!ENTITY b \"&c;\"><!ENTITY c \"&a;\">]><r x=\"1\" y=\"&c;\"/>",
    "<!DOCTYPE r [<!ENTITY a \"%p;\">]><r x=\"&a;\"/>",
    "<!DOCTYPE r [<!ENTITY a \"&nope;\">]><r x=\"&a;\"/>",
    "<r x=\"&nope;\"/>",
    // a circle that is reachable from the referenced entity but does not pass through it
    "<!DOCTYPE r [<!ENTITY a \"x&b;\"><!ENTITY b \"y&c;\"><!ENTITY c \"z&b;\">]><r k=\"&a;\"/>",
    "<!DOCTYPE r [<!ENTITY a \"&b;\"><!ENTITY b \"&c;\"><!ENTITY c \"&d;\"><!ENTITY d \"&c;\">]><r k=\"&a;\"/>",
    "<!DOCTYPE r [<!ENTITY a \"&b;&lt;\"><!ENTITY b \"&a;\">]><r k=\"&lt;\" j=\"&b;\"/>",
];

pub fn info_attr_value_inproc(doc: &str) -> Outcome {
    use xml_dom::{Attr, Document, Element, NamedNodeMap, Node};
    let observed = guard(|| {
        let d = match xml_dom::XmlDocument::from_raw(doc) {
            Ok((_, d)) => d,
            Err(_) => return "parse error".to_string(),
        };
        let r = match d.document_element() {
            Ok(r) => r,
            Err(_) => return "no document element".to_string(),
        };
        let mut out = vec![];
        if let Some(attrs) = r.as_node().attributes() {
            for a in attrs.iter() {
                let name = a.node_name();
                out.push(format!("{}={:?}", name, a.value().map_err(|_| "Err")));
            }
        }
        out.join(" ")
    });
    let note = if observed.starts_with("PANIC") { format!("panicked at {}", crate::LAST_PANIC_AT.lock().unwrap()) } else { String::new() };
    let expected = if observed.starts_with("PANIC") { "a value or an error for every attribute".to_string() } else { observed.clone() };
    Outcome { observed, expected, note }
}

pub fn info_attr_value(doc: &str) -> Outcome {
    in_child("info.attr_value_inproc", doc, "a value or an error for every attribute", "info/src/lib.rs attr_value_from_name")
}

// C03: parse + information set + compact print + pretty print of one document
pub const BUILD_DOCS: [&str; 20] = [
    "<r/>",
    "<?xml version=\"1.0\"?><!-- c --><r a=\"1\"><b>t</b><![CDATA[x]]><?p q?></r>",
    "<!DOCTYPE r [<!ELEMENT r (a|b)*><!ATTLIST r x CDATA #IMPLIED><!ENTITY e \"v\"><!NOTATION n SYSTEM \"s\"><?p q?><!-- c -->]><r x=\"&e;\">&e;</r>",
    "<!DOCTYPE r SYSTEM \"r.dtd\"><r/>",
    "<!DOCTYPE r [<!ENTITY % p \"v\">]><r/>",
    "<!DOCTYPE r [<!ENTITY % p SYSTEM \"p.ent\">]><r/>",
    "<!DOCTYPE r [<!ENTITY % p \"v\"> %p; ]><r/>",
    "<!DOCTYPE r [ %p; ]><r/>",
    "<!DOCTYPE r [<!ENTITY a \"&b;\"><!ENTITY b \"&a;\">]><r x=\"&a;\">&a;</r>",
    "<!DOCTYPE r [<!ELEMENT r ((((a,b)|c)*,d)+)>]><r/>",
    "<r xmlns:p=\"u\"><p:a p:b=\"1\"/></r>",
    "not xml",
    // attribute-list defaults that refer to entities (resolved while the DOCTYPE is being built)
    "<!DOCTYPE r [<!ATTLIST r a CDATA \"x&amp;y\">]><r/>",
    "<!DOCTYPE r [<!ENTITY e \"v\"><!ATTLIST r a CDATA \"&e;\" b CDATA #FIXED '&nope;'>]><r/>",
    "<!DOCTYPE r [<!ATTLIST r a (x|y) \"x\" b NOTATION (n) #IMPLIED c ID #REQUIRED>]><r a=\"y\"/>",
    // a single '-' followed by a multi-byte character at the end of a comment, of a PI, of CDATA
    "<a><!-- x -\u{e9}--></a>",
    "<a><!-- -\u{e9}",
    "<a><?p ?\u{e9}?><![CDATA[]\u{e9}]]>]\u{1F600}</a>",
    "<a b=\"\u{e9}&#xe9;&#233;\" c='\u{1F600}'>\u{e9}&amp;\u{1F600}</a>",
    "<\u{e9}l\u{e9}ment \u{e9}=\"1\"/>",
];

pub fn info_build_print_inproc(doc: &str) -> Outcome {
    use xml_dom::{AsNode, PrettyPrint};
    let observed = guard(|| match xml_dom::XmlDocument::from_raw(doc) {
        Ok((rest, d)) => {
            let compact = d.to_string();
            let mut buf: Vec<u8> = vec![];
            let pretty = d.as_node().pretty(&mut buf).is_ok();
            format!("Ok(rest={} compact={} pretty={}/{})", rest.len(), compact.len(), pretty, buf.len())
        }
        Err(_) => "Err".to_string(),
    });
    let note = if observed.starts_with("PANIC") { format!("panicked at {}", crate::LAST_PANIC_AT.lock().unwrap()) } else { String::new() };
    let expected = if observed.starts_with("PANIC") { "a document (printed both ways) or an error".to_string() } else { observed.clone() };
    Outcome { observed, expected, note }
}

pub fn info_build_print(doc: &str) -> Outcome {
    in_child("info.build_print_inproc", doc, "a document (printed both ways) or an error", "parse / information set / print")
}

/// one grid case in a child process (REPLAY_ISOLATE): the outcome the child prints, or ABORT / HANG
pub fn run_isolated(op: &str, a: &Args) -> Option<Outcome> {
    use std::io::Read;
    use std::process::{Command, Stdio};
    let exe = std::env::current_exe().ok()?;
    let mut cmd = Command::new(exe);
    cmd.arg("run").arg(op);
    for (k, v) in a {
        cmd.arg(format!("{}={}", k, crate::esc(v)));
    }
    let mut child = cmd.env_remove("REPLAY_ISOLATE").stdout(Stdio::piped()).stderr(Stdio::piped()).spawn().ok()?;
    let start = std::time::Instant::now();
    let status = loop {
        match child.try_wait().ok()? {
            Some(s) => break Some(s),
            None if start.elapsed().as_secs() >= 20 => {
                let _ = child.kill();
                let _ = child.wait();
                break None;
            }
            None => std::thread::sleep(std::time::Duration::from_millis(1)),
        }
    };
    let mut so = String::new();
    let mut se = String::new();
    let _ = child.stdout.take()?.read_to_string(&mut so);
    let _ = child.stderr.take()?.read_to_string(&mut se);
    let field = |k: &str| so.lines().find_map(|l| l.trim().strip_prefix(k).map(|v| v.to_string()));
    match status {
        None => Some(Outcome { observed: "HANG(no result within 20 s)".into(), expected: "a result".into(), note: String::new() }),
        Some(s) if s.code() == Some(2) => None,
        Some(s) if s.code().is_some() => Some(Outcome { observed: field("observed=")?, expected: field("expected=")?, note: field("note=").unwrap_or_default() }),
        Some(s) => {
            use std::os::unix::process::ExitStatusExt;
            let why = if se.contains("overflowed its stack") { "stack overflow" } else { "killed" };
            Some(Outcome { observed: format!("ABORT(signal {}: {})", s.signal().unwrap_or(0), why), expected: "a result (no abort of the process)".into(), note: String::new() })
        }
    }
}

pub fn in_child(op: &str, doc: &str, want: &str, site: &str) -> Outcome {
    use std::io::Read;
    use std::process::{Command, Stdio};
    let exe = std::env::current_exe().unwrap();
    let mut child = Command::new(exe)
        .args(["run", op, &format!("doc={}", crate::esc(doc))])
        .stdout(Stdio::piped())
        .stderr(Stdio::piped())
        .spawn()
        .unwrap();
    let start = std::time::Instant::now();
    let status = loop {
        match child.try_wait().unwrap() {
            Some(s) => break Some(s),
            None if start.elapsed().as_secs() >= 20 => {
                let _ = child.kill();
                let _ = child.wait();
                break None;
            }
            None => std::thread::sleep(std::time::Duration::from_millis(5)),
        }
    };
    let mut so = String::new();
    let mut se = String::new();
    let _ = child.stdout.take().unwrap().read_to_string(&mut so);
    let _ = child.stderr.take().unwrap().read_to_string(&mut se);
    let field = |k: &str| so.lines().find_map(|l| l.trim().strip_prefix(k).map(|v| v.to_string()));
    let want = want.to_string();
    match status {
        None => Outcome { observed: "HANG(no result within 20 s)".into(), expected: want, note: site.to_string() },
        Some(s) if s.code().is_some() => {
            let observed = field("observed=").unwrap_or_else(|| format!("child exit {:?} without a result", s.code()));
            let expected = field("expected=").unwrap_or_else(|| want.clone());
            Outcome { observed, expected, note: field("note=").unwrap_or_default() }
        }
        Some(s) => {
            use std::os::unix::process::ExitStatusExt;
            let why = if se.contains("overflowed its stack") { "stack overflow" } else { "killed" };
            Outcome {
                observed: format!("ABORT(signal {}: {})", s.signal().unwrap_or(0), why),
                expected: want,
                note: format!("recursion exhausted the stack in {}", site),
            }
        }
    }
}

// ------------------------------------------------------------------------------------------------
// C11: normalized attribute values (XML 1.0 3.3.3).  (document, "name=value name=value ..." of the document element, as
// the recommendation prescribes; values shown with {:?})

pub const ATTR_NORM_CASES: [(&str, &str); 20] = [
    ("<r a=\"x\ty\nz\"/>", "a=\"x y z\""),
    ("<r a=\"&#9;&#10;&#13;&#32;|\"/>", "a=\"\\t\\n\\r |\""),
    ("<!DOCTYPE r [<!ENTITY e \"v w\">]><r a=\"p&e;q\"/>", "a=\"pv wq\""),
    ("<!DOCTYPE r [<!ENTITY e \"v\tw\nx\">]><r a=\"&e;\"/>", "a=\"v w x\""),
    // 3.3.3, the recommendation's own example: character references INSIDE an entity's literal value are part of its
    // replacement text, whose white space is normalized when the entity is referenced from an attribute value
    ("<!DOCTYPE r [<!ENTITY d \"&#xD;\"><!ENTITY a \"&#xA;\"><!ENTITY da \"&#xD;&#xA;\">]><r a=\"&d;&d;A&a;&#x20;&a;B&da;\"/>", "a=\"  A   B  \""),
    ("<!DOCTYPE r [<!ENTITY d \"&#xD;\">]><r a=\"&#xd;&#xd;A&#xa;&#xa;B&#xd;&#xa;\"/>", "a=\"\\r\\rA\\n\\nB\\r\\n\""),
    ("<!DOCTYPE r [<!ENTITY t \"&#9;x\">]><r a=\"&t;\"/>", "a=\" x\""),
    ("<!DOCTYPE r [<!ENTITY i \"&o;&o;\"><!ENTITY o \"a b\">]><r a=\"&i;\"/>", "a=\"a ba b\""),
    ("<!DOCTYPE r [<!ATTLIST r a NMTOKENS #IMPLIED>]><r a=\"  x   y  \"/>", "a=\"x y\""),
    ("<!DOCTYPE r [<!ATTLIST r a CDATA #IMPLIED>]><r a=\"  x   y  \"/>", "a=\"  x   y  \""),
    ("<!DOCTYPE r [<!ATTLIST r a ID #IMPLIED>]><r a=\"\t x \n\"/>", "a=\"x\""),
    ("<!DOCTYPE r [<!ATTLIST r a NMTOKENS #IMPLIED><!ENTITY e \" p  q \">]><r a=\"&e;&e;\"/>", "a=\"p q p q\""),
    ("<!DOCTYPE r [<!ATTLIST r a NMTOKENS #IMPLIED>]><r a=\"&#32;x&#32;&#32;y&#32;\"/>", "a=\"x y\""),
    ("<r a=\"&lt;&amp;&gt;&quot;&apos;\"/>", "a=\"<&>\\\"'\""),
    // legal chains as long as the number of declared entities (a bound on the chain must not cut them short)
    ("<!DOCTYPE r [<!ENTITY e1 \"1&e2;\"><!ENTITY e2 \"2&e3;\"><!ENTITY e3 \"3&e4;\"><!ENTITY e4 \"4&e5;\"><!ENTITY e5 \"5\">]><r a=\"&e1;\"/>", "a=\"12345\""),
    ("<!DOCTYPE r [<!ENTITY e1 \"1&e2;\"><!ENTITY e2 \"2&e3;\"><!ENTITY e3 \"3&lt;\">]><r a=\"&e1;|&e1;\"/>", "a=\"123<|123<\""),
    ("<!DOCTYPE r [<!ENTITY e \"v\">]><r a=\"&e;&e;&e;&e;&e;&e;\"/>", "a=\"vvvvvv\""),
    // only #x20 is trimmed and collapsed for tokenized types; a referenced tab / no-break space stays
    ("<!DOCTYPE r [<!ATTLIST r a NMTOKENS #IMPLIED>]><r a=\"x&#9;y\"/>", "a=\"x\\ty\""),
    ("<!DOCTYPE r [<!ATTLIST r a NMTOKENS #IMPLIED>]><r a=\" &#xA0;x  y&#10; \"/>", "a=\"\\u{a0}x y\\n\""),
    ("<!DOCTYPE r [<!ATTLIST r a IDREFS #IMPLIED>]><r a=\"\u{3000}p \u{3000} q\"/>", "a=\"\\u{3000}p \\u{3000} q\""),
];

pub fn info_attr_norm(doc: &str, expected: &str) -> Outcome {
    use xml_dom::{Attr, Document, NamedNodeMap, Node};
    let observed = guard(|| {
        let d = match xml_dom::XmlDocument::from_raw(doc) {
            Ok((_, d)) => d,
            Err(_) => return "parse error".to_string(),
        };
        let r = match d.document_element() {
            Ok(r) => r,
            Err(_) => return "no document element".to_string(),
        };
        let mut out = vec![];
        if let Some(attrs) = r.as_node().attributes() {
            for a in attrs.iter() {
                out.push(match a.value() {
                    Ok(v) => format!("{}={:?}", a.node_name(), v),
                    Err(_) => format!("{}=Err", a.node_name()),
                });
            }
        }
        out.join(" ")
    });
    Outcome { observed, expected: expected.to_string(), note: String::new() }
}

// ------------------------------------------------------------------------------------------------
// C10, information-set level: [namespace name] of every element and attribute, in document order
// (element: name=uri or name=- ; attributes of an element follow it as @name=uri)

pub const NS_CASES: [(&str, &str); 12] = [
    ("<r xmlns='u'><a/></r>", "r=u a=u"),
    ("<r xmlns='u'><a xmlns=''><b/></a><c/></r>", "r=u a=- b=- c=u"),
    ("<r xmlns:p='u'><p:a><p:b p:x='1' y='2'/></p:a></r>", "r=- a=u b=u @x=u @y=-"),
    ("<r xmlns:p='u'><a xmlns:p='v'><p:b/></a><p:c/></r>", "r=- a=- b=v c=u"),
    ("<r xmlns='u' xmlns:p='w'><a><p:b xmlns:p='x'><c p:k='1' j='2'/></p:b></a></r>", "r=u a=u b=x c=u @k=x @j=-"),
    ("<r xml:lang='en'><a xml:space='preserve'/></r>", "r=- @lang=http://www.w3.org/XML/1998/namespace a=- @space=http://www.w3.org/XML/1998/namespace"),
    ("<r><a xmlns='u'><b><c/></b></a><d/></r>", "r=- a=u b=u c=u d=-"),
    ("<r xmlns='u' a='1'><b c='2'/></r>", "r=u @a=- b=u @c=-"),
    ("<!DOCTYPE r [<!ENTITY e 'u'>]><r xmlns='&e;'><a/></r>", "r=u a=u"),
    // the order in which an element writes its declarations does not matter
    ("<r xmlns:a='A' xmlns='U'><e1 xmlns=''><e2/></e1><c/></r>", "r=U e1=- e2=- c=U"),
    ("<r xmlns='U' xmlns:a='A'><e1 xmlns=''><e2/></e1><c/></r>", "r=U e1=- e2=- c=U"),
    ("<r xmlns:a='A' xmlns:b='B' xmlns:c='C'><x xmlns:b='B2'><b:y a:k='1' c:k='2'/></x></r>", "r=- x=- y=B2 @k=A @k=C"),
];

pub fn info_namespace_names(doc: &str, expected: &str) -> Outcome {
    use xml_info::{Attribute, Document, Element, HasQName};
    fn walk(e: &xml_info::XmlNode<xml_info::XmlElement>, out: &mut Vec<String>) {
        let b = e.borrow();
        let show = |r: xml_info::error::Result<Option<xml_info::NamespaceUri>>| match r {
            Ok(Some(u)) if !u.value().is_empty() => u.value().to_string(),
            Ok(Some(_)) => "(empty)".to_string(),
            Ok(None) => "-".to_string(),
            Err(_) => "Err".to_string(),
        };
        out.push(format!("{}={}", b.local_name(), show(b.namespace_name())));
        for a in b.attributes().iter() {
            out.push(format!("@{}={}", a.borrow().local_name(), show(a.borrow().namespace_name())));
        }
        for c in b.children().iter() {
            if let Some(ce) = c.as_element() {
                walk(&ce, out);
            }
        }
    }
    let observed = guard(|| {
        let tree = match xml_parser::document(doc) {
            Ok((_, t)) => t,
            Err(_) => return "parse error".to_string(),
        };
        let d = match xml_info::XmlDocument::new(&tree) {
            Ok(d) => d,
            Err(_) => return "information set error".to_string(),
        };
        let root = match d.borrow().document_element() {
            Ok(r) => r,
            Err(_) => return "no document element".to_string(),
        };
        let mut out = vec![];
        walk(&root, &mut out);
        out.join(" ")
    });
    Outcome { observed, expected: expected.to_string(), note: String::new() }
}

// ------------------------------------------------------------------------------------------------
// C11: defaulted attributes (XML 1.0 3.3.2): the attributes of the document element, sorted by name, as
// name=value/specified|defaulted

pub const ATTR_DEFAULT_CASES: [(&str, &str); 8] = [
    ("<!DOCTYPE r [<!ATTLIST r a CDATA #REQUIRED b CDATA #IMPLIED c CDATA 'd' e CDATA #FIXED 'f'>]><r/>", "c=d/defaulted e=f/defaulted"),
    ("<!DOCTYPE r [<!ATTLIST r a CDATA #REQUIRED b CDATA #IMPLIED c CDATA 'd'>]><r a='1' b='2'/>", "a=1/specified b=2/specified c=d/defaulted"),
    ("<!DOCTYPE r [<!ATTLIST r c CDATA 'd'><!ATTLIST r c CDATA 'x' g CDATA 'h'>]><r/>", "c=d/defaulted g=h/defaulted"),
    ("<!DOCTYPE r [<!ATTLIST r c CDATA 'd'><!ATTLIST r c CDATA 'x' g CDATA 'h'>]><r c='own'/>", "c=own/specified g=h/defaulted"),
    ("<!DOCTYPE r [<!ATTLIST s c CDATA 'd'><!ATTLIST r k CDATA 'v'>]><r/>", "k=v/defaulted"),
    ("<!DOCTYPE r [<!ATTLIST r c CDATA 'd'>]><r c='d'/>", "c=d/specified"),
    ("<!DOCTYPE r [<!ATTLIST r c CDATA \"x&amp;y\" t NMTOKENS #IMPLIED>]><r t=' p  q '/>", "c=x&y/defaulted t=p q/specified"),
    ("<r x='1'/>", "x=1/specified"),
];

pub fn info_attr_defaults(doc: &str, expected: &str) -> Outcome {
    use xml_dom::{Attr, Document, NamedNodeMap, Node};
    let observed = guard(|| {
        let d = match xml_dom::XmlDocument::from_raw(doc) {
            Ok((_, d)) => d,
            Err(_) => return "parse error".to_string(),
        };
        let r = match d.document_element() {
            Ok(r) => r,
            Err(_) => return "no document element".to_string(),
        };
        let mut out = vec![];
        if let Some(attrs) = r.as_node().attributes() {
            for a in attrs.iter() {
                out.push(format!("{}={}/{}", a.node_name(), a.value().unwrap_or_else(|_| "Err".to_string()), if a.specified() { "specified" } else { "defaulted" }));
            }
        }
        out.sort();
        out.join(" ")
    });
    Outcome { observed, expected: expected.to_string(), note: String::new() }
}

// ------------------------------------------------------------------------------------------------
// C04: print, re-parse, print again: the second print equals the first and the re-parsed document equals the original

pub const ROUNDTRIP_DOCS: [&str; 40] = [
    "<r/>",
    "<r></r>",
    "<?xml version=\"1.0\"?><r/>",
    "<?xml version=\"1.0\" encoding=\"UTF-8\" standalone=\"yes\"?><r/>",
    "<?xml version='1.0' standalone='no'?>\n<!-- c -->\n<?p d?>\n<r/>\n<!-- t -->",
    "<r a=\"1\" b='2'/>",
    "<r a=\"it's\" b='say \"x\"'/>",
    "<r a=\"&lt;&amp;&gt;&quot;&apos;\" b=\"&#65;&#x42;\"/>",
    "<r>text &lt;&amp;&gt; &#65;&#x42; <![CDATA[<c>&d;]]> tail</r>",
    "<r><a><b/></a><!--c--><?p d?><c>t</c></r>",
    "<r xmlns=\"u\" xmlns:p=\"v\"><p:a p:b=\"1\"/></r>",
    "<!DOCTYPE r><r/>",
    "<!DOCTYPE r SYSTEM \"r.dtd\"><r/>",
    "<!DOCTYPE r PUBLIC \"-//X//Y\" \"r.dtd\"><r/>",
    "<!DOCTYPE r [<!ENTITY e \"v\">]><r a=\"&e;\">&e;</r>",
    "<!DOCTYPE r [<!ENTITY e SYSTEM \"e.xml\"><!ENTITY u SYSTEM \"u.bin\" NDATA n><!NOTATION n SYSTEM \"n\">]><r/>",
    "<!DOCTYPE r [<!ENTITY e PUBLIC \"p\" \"s\"><!NOTATION m PUBLIC \"q\">]><r/>",
    "<!DOCTYPE r [<!ELEMENT r (a|b)*><!ELEMENT a EMPTY><!ELEMENT b (#PCDATA)>]><r><a/><b>t</b></r>",
    "<!DOCTYPE r [<!ATTLIST r a CDATA #IMPLIED b (x|y) \"x\" c ID #REQUIRED d NMTOKENS #FIXED \"p q\">]><r c=\"i\"/>",
    "<!DOCTYPE r [<!ATTLIST r a CDATA 'it\"s'>]><r/>",
    "<!DOCTYPE r [<?p d?><!-- c -->]><r/>",
    "<!DOCTYPE r [<!ENTITY a \"&#60;x&#62;\"><!ENTITY b 'say \"&a;\"'>]><r/>",
    "<r>\u{e9}\u{20ac}\u{1d4b3}</r>",
    "<\u{e9}l \u{e9}=\"\u{20ac}\"/>",
    "<r> \n\t </r>",
    "<r a=\" x  y \">  </r>",
    "<!DOCTYPE r [<!NOTATION n SYSTEM \"n\"><!NOTATION m SYSTEM \"m\"><!ATTLIST r t NOTATION (n|m) #IMPLIED e (x|y|z) 'y'>]><r t=\"n\"/>",
    "<!DOCTYPE p:r [<!ATTLIST p:r p:a CDATA #IMPLIED xmlns:p CDATA #FIXED 'u'>]><p:r xmlns:p=\"u\" p:a=\"1\"/>",
    "<!DOCTYPE r [<!ENTITY e 'v'><!ATTLIST r a CDATA \"x&e;y&#65;&lt;\" b IDREFS #IMPLIED c ENTITY #IMPLIED d ENTITIES #IMPLIED f NMTOKEN #IMPLIED g IDREF #IMPLIED>]><r/>",
    "<!DOCTYPE r [<!ATTLIST r a CDATA #IMPLIED><!ATTLIST r b CDATA 'd'><!ATTLIST s c CDATA #REQUIRED>]><r/>",
    "<!DOCTYPE r [<!ATTLIST r>]><r/>",
    "<r a=\"&#10;&#9;&#13;\">&#13;]]&gt;</r>",
    "<r><?p?><?q   spaced  data ?><!----><!-- - --></r>",
    "<r>a<![CDATA[]]>b<![CDATA[]]]]><![CDATA[>]]></r>",
    "<!DOCTYPE r [<!ENTITY a 'it\"s'><!ENTITY b \"it's\"><!ENTITY c \"&#34;&#39;\">]><r/>",
    "<!DOCTYPE r [<!ENTITY % p 'v'>]><r/>",
    "<r a=\"\u{e9}&#xe9;\" xml:lang=\"fr\" xml:space=\"preserve\"> \u{e9} </r>",
    "<r xmlns=\"\"><a xmlns=\"u\"><b xmlns=\"\"/></a></r>",
    "<?xml version=\"1.1\"?><r/>",
    "<?xml version=\"1.0\" encoding=\"ISO-8859-1\"?><r/>",
];

pub fn multibyte_docs() -> Vec<String> {
    const T: [&str; 17] = ["-\u{e9}", "x -\u{3042}", "\u{e9}-", "\u{e9}", "\u{3042}", "\u{20ac}5", "5\u{20ac}", "\u{1d4b3}", "\u{e9}t\u{e9}s", "a\u{301}", "x\u{1d4b3}y", "\u{3042}\u{3044}\u{3046}", "\u{10ffff}", "\u{fffd}", "]\u{3042}", "\u{3042}]", "]]\u{e9}"];
    let mut out = vec![];
    for t in T {
        out.push(format!("<r>{}</r>", t));
        out.push(format!("<r>{}<a/>{}</r>", t, t));
        out.push(format!("<r a=\"{}\"/>", t));
        out.push(format!("<r a='{}' b=\"{}\"/>", t, t));
        out.push(format!("<r><!--{}--></r>", t));
        out.push(format!("<r><?p {}?></r>", t));
        out.push(format!("<r><![CDATA[{}]]></r>", t));
        out.push(format!("<r>{}<![CDATA[{}]]>{}</r>", t, t, t));
        out.push(format!("<!DOCTYPE r [<!ENTITY e \"{}\"><!ATTLIST r a CDATA \"{}\">]><r>&e;{}</r>", t, t, t));
        out.push(format!("<!--{}--><r/><?p {}?>", t, t));
        for u in T {
            out.push(format!("<r>{}<b>{}</b>{}</r>", t, u, t));
            out.push(format!("<r>{}&#93;{}</r>", t, u));
        }
    }
    for n in ["\u{e9}", "\u{3042}\u{3044}", "a\u{b7}", "\u{10000}"] {
        out.push(format!("<{}/>", n));
        out.push(format!("<{} {}=\"v\">x</{}>", n, n, n));
        out.push(format!("<r><?{} d?></r>", n));
        out.push(format!("<r xmlns:{}=\"u\" {}:a=\"v\"/>", n, n));
    }
    out
}

pub fn roundtrip_enumerated() -> Vec<String> {
    const ATTR: [&str; 14] = ["'", "\"", "&#34;", "&#39;", "&quot;", "&apos;", "a", "&lt;", "&amp;", "&#9;", "&#10;", " ", "&#x3C;", ">"];
    const CONTENT: [&str; 15] = ["]", ">", "&gt;", "&#93;", "<![CDATA[]]]]>", "<![CDATA[>]]>", "<!--c-->", "a", "&#62;", "&lt;", "&amp;", "<e/>", "<?p?>", " ", "\n"];
    fn seqs(pieces: &[&str], max: usize) -> Vec<String> {
        let mut out: Vec<String> = vec![];
        let mut layer: Vec<String> = vec![String::new()];
        for _ in 0..max {
            let mut next = vec![];
            for s in &layer {
                for p in pieces {
                    next.push(format!("{}{}", s, p));
                }
            }
            out.extend(next.iter().cloned());
            layer = next;
        }
        out
    }
    let mut out = vec![];
    for v in seqs(&ATTR, 3) {
        for q in ['"', '\''] {
            if !v.contains(q) {
                out.push(format!("<r a={}{}{}/>", q, v, q));
            }
        }
    }
    for c in seqs(&CONTENT, 3) {
        out.push(format!("<r>{}</r>", c));
    }
    out
}

pub fn info_roundtrip(doc: &str) -> Outcome {
    let observed = guard(|| {
        let (rest, tree) = match xml_parser::document(doc) {
            Ok(v) => v,
            Err(_) => return "not accepted".to_string(),
        };
        if !rest.is_empty() {
            return "not accepted".to_string();
        }
        let d1 = match xml_info::XmlDocument::new(&tree) {
            Ok(d) => d,
            Err(_) => return "not accepted".to_string(),
        };
        let p1 = format!("{}", d1.borrow());
        let (rest2, tree2) = match xml_parser::document(p1.as_str()) {
            Ok(v) => v,
            Err(_) => return format!("the print does not parse: {:?}", p1),
        };
        if !rest2.is_empty() {
            return format!("the print leaves {:?} unparsed: {:?}", rest2, p1);
        }
        let d2 = match xml_info::XmlDocument::new(&tree2) {
            Ok(d) => d,
            Err(_) => return format!("the print has no information set: {:?}", p1),
        };
        let p2 = format!("{}", d2.borrow());
        if p1 != p2 {
            return format!("second print differs: {:?} then {:?}", p1, p2);
        }
        if *d1.borrow() != *d2.borrow() {
            return format!("re-parsed document is not equal to the original (print {:?})", p1);
        }
        "fixpoint".to_string()
    });
    let expected = if observed == "not accepted" { observed.clone() } else { "fixpoint".to_string() };
    Outcome { observed, expected, note: String::new() }
}

// ------------------------------------------------------------------------------------------------
// C02: ill-formed input is never reported as a completely parsed document (error, or unconsumed input the caller can test)

pub const ILL_FORMED: [&str; 55] = [
    "<a></b>", "<a><b></a></b>", "<a>", "<a><b></b>", "</a>", "<a/><b/>", "<a/>x", "x<a/>", "", "   ",
    "<a b='1' b='2'/>", "<a b=1/>", "<a b/>", "<a b='<'/>", "<a b='&'/>", "<a b='&#0;'/>", "<a b='&#xD800;'/>", "<a b='&#xFFFE;'/>", "<a b='1'c='2'/>",
    "<a>&</a>", "<a>&#0;</a>", "<a>&#x110000;</a>", "<a>&nope;</a>", "<a>]]></a>", "<a><!-- -- --></a>", "<a><!--x---></a>", "<a><![CDATA[x]]</a>",
    "<a><?xml version='1.0'?></a>", "<a><?XML x?></a>", " <?xml version='1.0'?><a/>", "<?xml version='1.0'?><?xml version='1.0'?><a/>", "<?xml?><a/>", "<?xml version='2'x?><a/>",
    "<1a/>", "<a:b:c/>", "<-a/>", "<a\u{0}/>", "<a>\u{1}</a>", "<a>\u{ffff}</a>",
    "<!DOCTYPE a><!DOCTYPE a><a/>", "<a/><!DOCTYPE a>", "<.a/>", "<!DOCTYPE a [<!ELEMENT a (b,,c)>]><a/>",
    // names: PI targets and references (a declared entity / notation name: below)
    "<a><?0 d?></a>", "<a><?-p?></a>", "<a><? d?></a>", "<a>&0;</a>", "<a>&;</a>", "<a b='&-x;'/>",
    // ill-formed only through the replacement text of an entity (recorded open finding: replacement text is never checked)
    "<!DOCTYPE r [<!ENTITY e \"<\">]><r a=\"&e;\"/>", "<!DOCTYPE r [<!ENTITY e \"<x>\">]><r>&e;</r>",
    "<!DOCTYPE r [<!ENTITY e \"&nope;\">]><r>&e;</r>", "<!DOCTYPE r [<!ENTITY e \"&#0;\">]><r/>",
    // declared entity / notation names starting with a digit (recorded open finding: pinned by the test-suite)
    "<!DOCTYPE r [<!ENTITY 1 \"v\">]><r/>", "<!DOCTYPE r [<!NOTATION 1 SYSTEM \"n\">]><r/>",
];

pub const ILL_FORMED_MUTANTS: &str = include_str!("../data/ill_formed_mutants.txt");
pub const WELL_FORMED_MUTANTS: &str = include_str!("../data/well_formed_mutants.txt");

pub fn unescape_line(line: &str) -> String {
    let mut out = String::new();
    let mut it = line.chars();
    while let Some(c) = it.next() {
        if c == '\\' {
            match it.next() {
                Some('n') => out.push('\n'),
                Some('r') => out.push('\r'),
                Some('t') => out.push('\t'),
                Some(o) => out.push(o),
                None => {}
            }
        } else {
            out.push(c);
        }
    }
    out
}

pub fn info_reject(doc: &str) -> Outcome {
    let observed = guard(|| match xml_parser::document(doc) {
        Err(_) => "rejected".to_string(),
        Ok((rest, _)) if !rest.is_empty() => "rejected".to_string(),
        Ok((_, tree)) => match xml_info::XmlDocument::new(&tree) {
            Err(_) => "rejected".to_string(),
            Ok(d) => format!("ACCEPTED as {}", d.borrow()),
        },
    });
    Outcome { observed, expected: "rejected".to_string(), note: String::new() }
}

// ------------------------------------------------------------------------------------------------
// C12 / C13: an attribute set through the DOM belongs to its element: it is specified, its prefix resolves in the scope of
// the element, its declared type applies, and it cannot be attached to a second element

pub const ATTR_OWNER_SCENARIOS: [&str; 7] = ["set_attribute_plain", "set_attribute_prefixed", "set_attribute_tokenized", "attribute_in_use_on_detached_element", "remove_attribute_removes_one", "removed_attribute_can_be_reused", "move_merged_text_node"];

pub fn dom_attr_owner(scenario: &str) -> Outcome {
    use xml_dom::{Attr, Document, DocumentMut, Element, ElementMut};
    let mut expected = String::new();
    let observed = guard(|| {
        let (_, doc) = xml_dom::XmlDocument::from_raw("<!DOCTYPE r [<!ATTLIST r t NMTOKENS #IMPLIED>]><r xmlns:p='u' a='2'><s/></r>").unwrap();
        let r = doc.document_element().unwrap();
        let describe = |name: &str| -> String {
            let a = r.get_attribute_node(name).unwrap();
            let ns = xml_dom::AsExpandedName::as_expanded_name(&a).ok().flatten().and_then(|n| n.2).unwrap_or_default();
            format!("specified={} value={:?} namespace={:?}", a.specified(), a.value().unwrap_or_default(), ns)
        };
        match scenario {
            "set_attribute_plain" => {
                r.set_attribute("k", "v").unwrap();
                expected = "specified=true value=\"v\" namespace=\"\"".to_string();
                describe("k")
            }
            "set_attribute_prefixed" => {
                r.set_attribute("p:j", "w").unwrap();
                expected = "specified=true value=\"w\" namespace=\"u\"".to_string();
                describe("j")
            }
            "set_attribute_tokenized" => {
                r.set_attribute("t", "  x   y ").unwrap();
                expected = "specified=true value=\"x y\" namespace=\"\"".to_string();
                describe("t")
            }
            "remove_attribute_removes_one" => {
                // two attributes share a local name under different prefixes: removing by name takes exactly one of them
                let (_, doc2) = xml_dom::XmlDocument::from_raw("<r xmlns:p='u' p:a='1' a='2' b='3'/>").unwrap();
                let r2 = doc2.document_element().unwrap();
                r2.remove_attribute("a").unwrap();
                let left = { use xml_dom::{NamedNodeMap, Node}; r2.attributes().unwrap().iter().count() };
                expected = "attributes left: 2".to_string();
                format!("attributes left: {}", left)
            }
            "move_merged_text_node" => {
                // with references expanded the text children are merged nodes: handing one to a mutator must not panic
                use xml_dom::{Node, NodeMut};
                let ctx = xml_dom::Context::from_text_expanded(true);
                let (_, doc2) = xml_dom::XmlDocument::from_raw_with_context("<r>a&lt;b<s/>t</r>", ctx).unwrap();
                let r2 = doc2.document_element().unwrap();
                let t = r2.first_child().unwrap();
                let s2 = xml_dom::NodeList::item(&r2.child_nodes(), 1).unwrap().as_element().unwrap();
                let res = s2.append_child(t);
                expected = "a moved node or an error".to_string();
                if res.is_ok() || res.is_err() { "a moved node or an error".to_string() } else { String::new() }
            }
            "removed_attribute_can_be_reused" => {
                let at = r.get_attribute_node("a").unwrap();
                r.remove_attribute("a").unwrap();
                let s2 = doc.create_element("s2").unwrap();
                let again = s2.set_attribute_node(at).is_ok();
                expected = "reused=true r has a=false s2 has a=true".to_string();
                format!("reused={} r has a={} s2 has a={}", again, r.get_attribute_node("a").is_some(), s2.get_attribute_node("a").is_some())
            }
            _ => {
                let e1 = doc.create_element("e1").unwrap();
                let e2 = doc.create_element("e2").unwrap();
                let at = doc.create_attribute("k").unwrap();
                let first = e1.set_attribute_node(at.clone()).is_ok();
                let second = e2.set_attribute_node(at.clone()).is_ok();
                expected = "first=true second=false e1 has k=true e2 has k=false".to_string();
                format!("first={} second={} e1 has k={} e2 has k={}", first, second, e1.get_attribute_node("k").is_some(), e2.get_attribute_node("k").is_some())
            }
        }
    });
    Outcome { observed, expected, note: scenario.to_string() }
}

// ------------------------------------------------------------------------------------------------
// C13: the create_* factories of DocumentMut never panic, whatever the data

pub const FACTORY_CASES: [(&str, &str); 12] = [
    ("text", "plain"), ("text", ""), ("text", "a<b"), ("text", "a&b"), ("text", "x]]>y"),
    ("comment", "plain"), ("comment", "a--b"), ("comment", "ends with -"),
    ("cdata", "plain"), ("cdata", "a<b&c"), ("cdata", "x]]>y"), ("text", "\u{e9}\u{1d4b3}"),
];

pub fn dom_factory(kind: &str, data: &str) -> Outcome {
    use xml_dom::{CharacterData, DocumentMut};
    let observed = guard(|| {
        let (_, doc) = xml_dom::XmlDocument::from_raw("<r/>").unwrap();
        let got = match kind {
            "text" => doc.create_text_node(data).data(),
            "comment" => doc.create_comment(data).data(),
            _ => doc.create_cdata_section(data).data(),
        };
        format!("a node whose data is {:?}", got.unwrap_or_else(|_| "Err".to_string()))
    });
    let note = if observed.starts_with("PANIC") { format!("panicked at {}", crate::LAST_PANIC_AT.lock().unwrap()) } else { String::new() };
    Outcome { observed, expected: format!("a node whose data is {:?}", data), note }
}
