#!/usr/bin/env python3
"""Developer aid: assemble one unit, run Verus, print obligations and raw errors. usage: dev.py <unit> [repo]"""
import importlib, os, sys, shutil
ROOT = os.path.dirname(os.path.abspath(__file__)); sys.path.insert(0, ROOT); os.chdir(ROOT)
os.environ.pop('RUSTUP_TOOLCHAIN', None)
from vf import verus
u = importlib.import_module('units.' + sys.argv[1]).UNIT
repo = next((a for a in sys.argv[2:] if a.startswith('/')), '/repo')
sc = os.path.join(ROOT, '.scratch', 'dev-' + sys.argv[1])
shutil.rmtree(sc, ignore_errors=True)
r = verus.verify_unit(u, sc, repo=repo, vacuity='--novac' not in sys.argv)
print('status', r.status, 'wall', round(r.wall_s, 1), 'smt_ms', r.smt_ms)
if r.reason: print('REASON', r.reason)
for o in r.obligations:
    print(' ', o['status'], o['id'], o.get('sites', ''))
    if o['status'] == 'failed' and '-v' in sys.argv: print(o['detail'])
print('vacuity', r.vacuity)
print('gen', r.gen_path)
