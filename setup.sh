#!/bin/sh
# Offline setup: checks tool presence only; nothing depending on /repo is pre-built (every check rebuilds from /repo).
set -e
cd "$(dirname "$0")"
command -v verus >/dev/null || { echo "verus missing"; exit 1; }
command -v cargo-kani >/dev/null || { echo "cargo-kani missing"; exit 1; }
command -v python3 >/dev/null || { echo "python3 missing"; exit 1; }
mkdir -p evidence out/replays .scratch
python3 gen_manifest.py >/dev/null
echo setup ok
